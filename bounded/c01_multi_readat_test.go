package authenticode

// Bounded stand-in for property C01 (NOT a proof, labelled bounded in the evidence):
// (*multi).ReadAt and newMultiReaderAt against the specification "a positional reader over the
// concatenation of the parts", exhaustively for every list of up to 4 parts of 0..3 bytes each,
// every offset in [-1, total+1] and every buffer length in [0, total+2]
// (thorough tier: up to 5 parts of 0..4 bytes).
//
// Injected into the package with `go test -overlay`; nothing is written into the repository.

import (
	"bytes"
	"fmt"
	"os"
	"testing"
)

func TestVfyBoundedMultiReadAt(t *testing.T) {
	cases := 0
	maxParts, maxSize := 4, 3
	if os.Getenv("VFY_BOUND_TIER") == "thorough" {
		maxParts, maxSize = 5, 4 // thorough tier: 5 parts of up to 4 bytes
	}
	var sizes []int
	var rec func(depth int)
	check := func() {
		// parts with distinct byte values
		var all []byte
		var parts []SizeReaderAt
		next := byte(1)
		middleEmpty := false
		for i, n := range sizes {
			b := make([]byte, n)
			for k := range b {
				b[k] = next
				next++
			}
			if n == 0 && i < len(sizes)-1 {
				middleEmpty = true
			}
			all = append(all, b...)
			parts = append(parts, sectionReaderFromBytes(b))
		}
		m := newMultiReaderAt(parts...)
		if m.Size() != int64(len(all)) {
			t.Fatalf("VFY-BOUNDED FAIL sizes=%v: Size()=%d, want %d", sizes, m.Size(), len(all))
		}
		for off := -1; off <= len(all)+1; off++ {
			for ln := 0; ln <= len(all)+2; ln++ {
				cases++
				p := bytes.Repeat([]byte{0xEE}, ln)
				n, err := func() (n int, err error) {
					defer func() {
						if r := recover(); r != nil {
							err = fmt.Errorf("panic: %v", r)
							n = -1
						}
					}()
					return m.ReadAt(p, int64(off))
				}()
				if n == -1 {
					t.Fatalf("VFY-BOUNDED FAIL sizes=%v off=%d len=%d: %v", sizes, off, ln, err)
				}
				if off < 0 {
					continue // outside the ReaderAt contract; only absence of a panic is required
				}
				avail := len(all) - off
				if avail < 0 {
					avail = 0
				}
				want := ln
				if avail < want {
					want = avail
				}
				// soundness: what was delivered is the concatenation's bytes, the rest of p is untouched
				if n < 0 || n > ln || n > avail {
					t.Fatalf("VFY-BOUNDED FAIL sizes=%v off=%d len=%d: n=%d out of range (avail %d)", sizes, off, ln, n, avail)
				}
				if n > 0 && !bytes.Equal(p[:n], all[off:off+n]) {
					t.Fatalf("VFY-BOUNDED FAIL sizes=%v off=%d len=%d: got % x, want % x", sizes, off, ln, p[:n], all[off:off+n])
				}
				if err == nil && n != ln {
					t.Fatalf("VFY-BOUNDED FAIL sizes=%v off=%d len=%d: n=%d with nil error", sizes, off, ln, n)
				}
				// completeness (only with non-empty parts before the last, which is what Parse builds):
				// everything available is delivered, and without error when the buffer was filled
				if !middleEmpty {
					if n != want {
						t.Fatalf("VFY-BOUNDED FAIL sizes=%v off=%d len=%d: n=%d, want %d", sizes, off, ln, n, want)
					}
					if (err == nil) != (n == ln) {
						t.Fatalf("VFY-BOUNDED FAIL sizes=%v off=%d len=%d: n=%d err=%v", sizes, off, ln, n, err)
					}
				}
			}
		}
	}
	rec = func(depth int) {
		check()
		if depth == maxParts {
			return
		}
		for n := 0; n <= maxSize; n++ {
			sizes = append(sizes, n)
			rec(depth + 1)
			sizes = sizes[:len(sizes)-1]
		}
	}
	rec(0)
	fmt.Printf("VFY-BOUNDED cases=%d\n", cases)
}
