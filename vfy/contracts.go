package main

// Contract files: comment-only Go files behind the build tag `verif` inside
// the repository (zz_verif_contracts.go). Syntax, one block per function:
//
//	//@ func (*SignatureList).Exists
//	//@ requires <expr>
//	//@ ensures [C09.first] <expr>
//	//@ modifies <lvalue>, <lvalue>
//	//@ loop 1 invariant [k] <expr>
//	//@ loop 1 decreases <expr>
//	//@ inputsize <expr>
//	//@ trigger <term>, <term>  (on a lemma function: once its contract is proved, `requires ==> ensures`
//	//                         is given to all other functions as an axiom instantiated on these terms)
//	//@ lemma [k] <expr>      (auxiliary fact at every return, may mention locals; proved, then
//	//                         available to the lemmas and ensures clauses that follow it)
//	//@ inline | trusted
//
// A clause may continue on following lines that start with "//@   " (three or
// more spaces after the marker).

import (
	"fmt"
	"go/ast"
	"go/parser"
	"os"
	"path/filepath"
	"regexp"
	"strconv"
	"strings"
)

type Clause struct {
	Kind  string // requires ensures modifies invariant decreases inputsize
	Label string
	Props []string
	Text  string
	Expr  ast.Expr
	Exprs []ast.Expr // modifies
	File  string
	Line  int
}

// Pred is a named specification predicate: //@ pred name(a, b) = expr
type Pred struct {
	Name   string
	Params []string
	Text   string
	Expr   ast.Expr
	Pkg    string
	Opaque bool
}

var specPreds = map[string]*Pred{}

type Contract struct {
	Func      string
	Requires  []*Clause
	Ensures   []*Clause
	Modifies  []*Clause
	Loops     map[int][]*Clause
	InputSize *Clause
	Trigger   *Clause // lemma function: its contract, once proved, is available as an axiom with these trigger terms
	Inline    bool
	Trusted   bool
	Fresh     bool // result pointers are freshly allocated
	Pure      bool
	Nullable  map[string]bool
	Outbuf    map[string]bool
	File      string
}

var labelRe = regexp.MustCompile(`^\[([^\]]+)\]\s*`)

func parseContractFile(path, pkgPath string) ([]*Contract, error) {
	data, err := os.ReadFile(path)
	if err != nil {
		return nil, err
	}
	var out []*Contract
	var cur *Contract
	var pending *Clause
	var pendingPred *Pred
	flushPred := func() error {
		if pendingPred == nil {
			return nil
		}
		pd := pendingPred
		pendingPred = nil
		e, err := parser.ParseExpr(rewriteSpec(pd.Text))
		if err != nil {
			return fmt.Errorf("%s: pred %s: %v", path, pd.Name, err)
		}
		pd.Expr = e
		return nil
	}
	flush := func() error {
		if err := flushPred(); err != nil {
			return err
		}
		if pending == nil {
			return nil
		}
		cl := pending
		pending = nil
		if err := cl.parse(); err != nil {
			return fmt.Errorf("%s:%d: %v", path, cl.Line, err)
		}
		switch cl.Kind {
		case "requires":
			cur.Requires = append(cur.Requires, cl)
		case "ensures", "lemma", "apply":
			cur.Ensures = append(cur.Ensures, cl)
		case "modifies":
			cur.Modifies = append(cur.Modifies, cl)
		case "inputsize":
			cur.InputSize = cl
		case "trigger":
			cur.Trigger = cl
		}
		return nil
	}
	lines := strings.Split(string(data), "\n")
	for ln, raw := range lines {
		l := strings.TrimSpace(raw)
		var body string
		switch {
		case strings.HasPrefix(l, "//@"):
			body = l[3:]
		case strings.HasPrefix(l, "// @"):
			body = l[4:]
		default:
			if l != "" && !strings.HasPrefix(l, "//") && !strings.HasPrefix(l, "package ") {
				return nil, fmt.Errorf("%s:%d: contract files must contain only comments and the package clause", path, ln+1)
			}
			continue
		}
		if strings.HasPrefix(body, "    ") && pendingPred != nil {
			pendingPred.Text += " " + strings.TrimSpace(body)
			continue
		}
		if strings.HasPrefix(body, "    ") && pending != nil { // continuation
			pending.Text += " " + strings.TrimSpace(body)
			continue
		}
		body = strings.TrimSpace(body)
		if body == "" {
			continue
		}
		if err := flush(); err != nil {
			return nil, err
		}
		word, rest := splitWord(body)
		switch word {
		case "func":
			cur = &Contract{Func: pkgPath + "." + strings.TrimSpace(rest), Loops: map[int][]*Clause{}, File: path, Nullable: map[string]bool{}, Outbuf: map[string]bool{}}
			out = append(out, cur)
		case "requires", "ensures", "modifies", "inputsize", "lemma", "trigger", "apply":
			if cur == nil {
				return nil, fmt.Errorf("%s:%d: clause outside func block", path, ln+1)
			}
			pending = &Clause{Kind: word, Text: rest, File: path, Line: ln + 1}
		case "loop":
			if cur == nil {
				return nil, fmt.Errorf("%s:%d: clause outside func block", path, ln+1)
			}
			nstr, r2 := splitWord(rest)
			n, err := strconv.Atoi(nstr)
			if err != nil {
				return nil, fmt.Errorf("%s:%d: loop ordinal: %v", path, ln+1, err)
			}
			kind, r3 := splitWord(r2)
			if kind != "invariant" && kind != "decreases" {
				return nil, fmt.Errorf("%s:%d: unknown loop clause %q", path, ln+1, kind)
			}
			cl := &Clause{Kind: kind, Text: r3, File: path, Line: ln + 1}
			// loop clauses are parsed immediately (single line or continued)
			cc := cur
			nn := n
			// use pending mechanism: stash and register on flush
			pending = cl
			saved := cl
			_ = saved
			// register now; parse on flush through closure below
			cc.Loops[nn] = append(cc.Loops[nn], cl)
		case "pred", "opaque":
			opaque := false
			if word == "opaque" {
				// opaque pred name(a, b) = expr: used through an uninterpreted symbol with a defining axiom
				w2, r2 := splitWord(rest)
				if w2 != "pred" {
					return nil, fmt.Errorf("%s:%d: expected `opaque pred`", path, ln+1)
				}
				rest = r2
				opaque = true
			}
			// pred name(a, b) = expr   (package-wide; continued lines allowed via pending mechanism)
			eq := strings.Index(rest, "=")
			op := strings.Index(rest, "(")
			cp := strings.Index(rest, ")")
			if eq < 0 || op < 0 || cp < op || eq < cp {
				return nil, fmt.Errorf("%s:%d: pred syntax: pred name(a, b) = expr", path, ln+1)
			}
			pd := &Pred{Name: strings.TrimSpace(rest[:op]), Text: strings.TrimSpace(rest[eq+1:]), Pkg: pkgPath, Opaque: opaque}
			for _, a := range strings.Split(rest[op+1:cp], ",") {
				if a = strings.TrimSpace(a); a != "" {
					pd.Params = append(pd.Params, strings.Fields(a)[0])
				}
			}
			pendingPred = pd
			specPreds[pd.Name] = pd
		case "nullable":
			for _, n := range strings.Fields(strings.ReplaceAll(rest, ",", " ")) {
				cur.Nullable[n] = true
			}
		case "outbuf":
			for _, n := range strings.Fields(strings.ReplaceAll(rest, ",", " ")) {
				cur.Outbuf[n] = true
			}
		case "inline":
			cur.Inline = true
		case "trusted":
			cur.Trusted = true
		case "fresh":
			cur.Fresh = true
		case "pure":
			cur.Pure = true
		default:
			return nil, fmt.Errorf("%s:%d: unknown contract keyword %q", path, ln+1, word)
		}
	}
	if err := flush(); err != nil {
		return nil, err
	}
	// loop clauses were registered unparsed: parse them now
	for _, c := range out {
		for _, cls := range c.Loops {
			for _, cl := range cls {
				if cl.Expr == nil {
					if err := cl.parse(); err != nil {
						return nil, fmt.Errorf("%s:%d: %v", path, cl.Line, err)
					}
				}
			}
		}
	}
	return out, nil
}

func splitWord(s string) (string, string) {
	s = strings.TrimSpace(s)
	i := strings.IndexAny(s, " \t")
	if i < 0 {
		return s, ""
	}
	return s[:i], strings.TrimSpace(s[i+1:])
}

func (cl *Clause) parse() error {
	if cl.Expr != nil || cl.Exprs != nil {
		return nil
	}
	t := strings.TrimSpace(cl.Text)
	if m := labelRe.FindStringSubmatch(t); m != nil {
		cl.Label = m[1]
		t = t[len(m[0]):]
		// props: "C07+C08.name" or "C08.name" or "*.name"
		head := cl.Label
		if i := strings.Index(head, "."); i >= 0 {
			head = head[:i]
		}
		for _, p := range strings.Split(head, "+") {
			cl.Props = append(cl.Props, p)
		}
	} else if cl.Kind == "ensures" || cl.Kind == "invariant" || cl.Kind == "lemma" || cl.Kind == "apply" {
		return fmt.Errorf("clause needs a [label]: %s", cl.Text)
	}
	// strip trailing comment
	if i := strings.Index(t, " // "); i >= 0 {
		t = t[:i]
	}
	if cl.Kind == "modifies" || cl.Kind == "trigger" {
		for _, piece := range splitTop(t, ',') {
			e, err := parser.ParseExpr(rewriteSpec(piece))
			if err != nil {
				return fmt.Errorf("modifies %q: %v", piece, err)
			}
			cl.Exprs = append(cl.Exprs, e)
		}
		return nil
	}
	e, err := parser.ParseExpr(rewriteSpec(t))
	if err != nil {
		return fmt.Errorf("%q: %v", t, err)
	}
	cl.Expr = e
	return nil
}

// rewriteSpec turns "A ==> B" into imp__(A, B) and "A <==> B" into iff__(A,B)
// (lowest precedence, right associative), recursively inside brackets.
func rewriteSpec(s string) string {
	return rewritePiece(s)
}

func rewritePiece(p string) string {
	if i := findTop(p, "<==>"); i >= 0 {
		return "iff__(" + rewritePiece(p[:i]) + ", " + rewritePiece(p[i+4:]) + ")"
	}
	if i := findTop(p, "==>"); i >= 0 {
		return "imp__(" + rewriteParens(p[:i]) + ", " + rewritePiece(p[i+3:]) + ")"
	}
	return rewriteParens(p)
}

func findTop(s, op string) int {
	depth := 0
	for i := 0; i < len(s); i++ {
		switch s[i] {
		case '(', '[', '{':
			depth++
		case ')', ']', '}':
			depth--
		case '"':
			for i++; i < len(s) && s[i] != '"'; i++ {
			}
		}
		if depth == 0 && strings.HasPrefix(s[i:], op) {
			if op == "==>" && i > 0 && s[i-1] == '<' {
				continue
			}
			return i
		}
	}
	return -1
}

func rewriteParens(s string) string {
	var b strings.Builder
	for i := 0; i < len(s); i++ {
		c := s[i]
		if c == '"' {
			j := i + 1
			for j < len(s) && s[j] != '"' {
				if s[j] == '\\' {
					j++
				}
				j++
			}
			if j >= len(s) {
				j = len(s) - 1
			}
			b.WriteString(s[i : j+1])
			i = j
			continue
		}
		if c == '(' || c == '[' {
			closeCh := byte(')')
			if c == '[' {
				closeCh = ']'
			}
			depth := 1
			j := i + 1
			for ; j < len(s) && depth > 0; j++ {
				if s[j] == '"' {
					for j++; j < len(s) && s[j] != '"'; j++ {
						if s[j] == '\\' {
							j++
						}
					}
					continue
				}
				if s[j] == c {
					depth++
				} else if s[j] == closeCh {
					depth--
				}
			}
			inner := s[i+1 : j-1]
			b.WriteByte(c)
			pieces := splitTop(inner, ',')
			for k, pc := range pieces {
				if k > 0 {
					b.WriteString(", ")
				}
				b.WriteString(rewritePiece(pc))
			}
			b.WriteByte(closeCh)
			i = j - 1
			continue
		}
		b.WriteByte(c)
	}
	return b.String()
}

func splitTop(s string, sep byte) []string {
	var out []string
	depth := 0
	start := 0
	for i := 0; i < len(s); i++ {
		if s[i] == '"' {
			for i++; i < len(s) && s[i] != '"'; i++ {
				if s[i] == '\\' {
					i++
				}
			}
			continue
		}
		switch s[i] {
		case '(', '[', '{':
			depth++
		case ')', ']', '}':
			depth--
		default:
			if s[i] == sep && depth == 0 {
				out = append(out, strings.TrimSpace(s[start:i]))
				start = i + 1
			}
		}
	}
	if strings.TrimSpace(s[start:]) != "" || len(out) > 0 {
		out = append(out, strings.TrimSpace(s[start:]))
	}
	return out
}

// loadContracts reads every zz_verif_contracts.go below root.
func loadContracts(root string, pkgPathOf func(dir string) string) (map[string]*Contract, []string, error) {
	res := map[string]*Contract{}
	var files []string
	err := filepath.Walk(root, func(p string, info os.FileInfo, err error) error {
		if err != nil {
			return nil
		}
		if info.IsDir() {
			if info.Name() == ".git" {
				return filepath.SkipDir
			}
			return nil
		}
		if info.Name() != "zz_verif_contracts.go" {
			return nil
		}
		pp := pkgPathOf(filepath.Dir(p))
		cs, err := parseContractFile(p, pp)
		if err != nil {
			return err
		}
		files = append(files, p)
		for _, c := range cs {
			if _, dup := res[c.Func]; dup {
				return fmt.Errorf("%s: duplicate contract for %s", p, c.Func)
			}
			res[c.Func] = c
		}
		return nil
	})
	return res, files, err
}
