package main

// Bounded stand-ins: where a function is not (yet) within reach of a contract that decides a
// conjunct of a property, an exhaustive check up to a stated bound may stand in for it.  It is a
// Go test kept in /verif/bounded, injected into the package with `go test -overlay` (nothing is
// written into the repository) and run against the current working tree.  A bounded stand-in is
// listed as such in the evidence and is never counted among the discharged obligations; a
// failing one is a violation whose replay file carries the failing case the test printed.

import (
	"context"
	"encoding/json"
	"fmt"
	"os"
	"os/exec"
	"path/filepath"
	"regexp"
	"strconv"
	"strings"
	"time"
)

type boundedSpec struct {
	Test   string `json:"test"`   // name of the test function
	File   string `json:"file"`   // file under /verif/bounded
	PkgDir string `json:"pkgdir"` // package directory relative to the repository
	Bound  string `json:"bound"`  // the bound, in words
}

type boundedResult struct {
	boundedSpec
	Passed  bool    `json:"passed"`
	Cases   int64   `json:"cases"`
	Seconds float64 `json:"seconds"`
	Log     string  `json:"-"`
}

// boundTier is handed to the test as VFY_BOUND_TIER (a test may enlarge its bound in the thorough tier).
var boundTier = "quick"

func runBounded(b boundedSpec) boundedResult {
	res := boundedResult{boundedSpec: b}
	t0 := time.Now()
	tmp, err := os.MkdirTemp("", "vfybounded")
	if err != nil {
		res.Log = err.Error()
		return res
	}
	defer os.RemoveAll(tmp)
	src := filepath.Join(verifRoot, "bounded", b.File)
	pkgDir := filepath.Join(repoRoot, b.PkgDir)
	ov := map[string]map[string]string{"Replace": {filepath.Join(pkgDir, "zz_vfy_bounded_test.go"): src}}
	ovData, _ := json.Marshal(ov)
	ovFile := filepath.Join(tmp, "overlay.json")
	os.WriteFile(ovFile, ovData, 0o644)
	ctx, cancel := context.WithTimeout(context.Background(), 300*time.Second)
	defer cancel()
	cmd := exec.CommandContext(ctx, "go", "test", "-overlay", ovFile, "-vet=off", "-v", "-count=1", "-timeout", "240s", "-run", "^"+b.Test+"$", ".")
	cmd.Dir = pkgDir
	cmd.Env = append(goEnv(), "GOMEMLIMIT=2GiB", "VFY_BOUND_TIER="+boundTier)
	out, _ := cmd.CombinedOutput()
	res.Log = string(out)
	res.Seconds = round3(time.Since(t0).Seconds())
	if m := regexp.MustCompile(`VFY-BOUNDED cases=(\d+)`).FindStringSubmatch(res.Log); m != nil {
		res.Cases, _ = strconv.ParseInt(m[1], 10, 64)
	}
	res.Passed = strings.Contains(res.Log, "--- PASS: "+b.Test) && res.Cases > 0 && !strings.Contains(res.Log, "VFY-BOUNDED FAIL")
	return res
}

// parseBoundedLine: `bounded <Test> <file> <pkgdir> | <bound in words>`
func parseBoundedLine(l string) (boundedSpec, error) {
	head, bound, _ := strings.Cut(l, "|")
	fs := strings.Fields(head)
	if len(fs) != 4 {
		return boundedSpec{}, fmt.Errorf("bad bounded line %q", l)
	}
	return boundedSpec{Test: fs[1], File: fs[2], PkgDir: fs[3], Bound: strings.TrimSpace(bound)}, nil
}
