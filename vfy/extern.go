package main

// Assumed contracts of functions outside the repository (the trusted base).
// Each handler is the contract, written against the symbolic state. The
// documentation string of every handler that a run actually used is listed in
// the evidence file.

import (
	"fmt"
	"go/constant"
	"go/types"
	"strings"

	"golang.org/x/tools/go/ssa"
)

type extHandler func(x *Exec, st *State, fr *Frame, cc *ssa.CallCommon, args []Val, instr ssa.Instruction) []Outcome
type ifaceHandler func(x *Exec, st *State, fr *Frame, cc *ssa.CallCommon, iv IfaceV, args []Val, instr ssa.Instruction) []Outcome

var externs = map[string]extHandler{}
var externDoc = map[string]string{}
var ifaceMethods = map[string]ifaceHandler{}
var specFuncs = map[string]func(e *specEnv, args []SV) SV{}

func ext(name, doc string, h extHandler) {
	externs[name] = h
	externDoc[name] = doc
}

func one(st *State, v Val) []Outcome { return []Outcome{{st, v}} }

func nilErr() ErrV { return ErrV{Class: "0", Wrapped: "false"} }

func (x *Exec) freshErr(st *State, hint string) ErrV {
	c := st.fresh(hint, SInt)
	st.assume(tCmp("<", "0", c))
	st.assume(tNot(tEq(c, "0")))
	return ErrV{Class: c, Wrapped: st.fresh(hint+"w", SBool)}
}

func (x *Exec) siteErr(instr ssa.Instruction) ErrV {
	return ErrV{Class: num(x.errClassOf("site:" + x.posOf(instr) + ":" + fmt.Sprint(instr))), Wrapped: "false"}
}

// ---------------------------------------------------------------------------
// byte streams

type stream struct {
	get func(st *State) string
	set func(st *State, v string)
}

func (x *Exec) bufContent(v Val) (PtrV, *DT, bool) {
	p, ok := v.(PtrV)
	if !ok || p.Ref == "" || len(p.Path) != 0 {
		return PtrV{}, nil, false
	}
	d := x.w.DTByName(p.RootSort)
	return p, d, d != nil
}

// readerOf: the remaining-bytes view of a reader value.
func (x *Exec) readerOf(st *State, v Val) *stream {
	switch u := v.(type) {
	case IfaceV:
		if u.Sym != "" {
			key := "rem:" + u.Sym
			if _, ok := st.ghost[key]; !ok {
				return nil
			}
			return &stream{
				get: func(st *State) string { return st.ghost[key].(TV).E },
				set: func(st *State, v string) { st.ghost[key] = TV{SSeqI, v} },
			}
		}
		if u.Payload != nil {
			return x.readerOf(st, u.Payload)
		}
	case PtrV:
		p, d, ok := x.bufContent(u)
		if !ok {
			return nil
		}
		switch ghostFor(p.Elem) {
		case "bytes.Buffer":
			return &stream{
				get: func(st *State) string { return d.Get(0, st.heapSelect(p.RootSort, p.Ref)) },
				set: func(st *State, v string) {
					st.heapStore(p.RootSort, p.Ref, d.With(st.heapSelect(p.RootSort, p.Ref), 0, v))
				},
			}
		case "bytes.Reader":
			return &stream{
				get: func(st *State) string {
					o := st.heapSelect(p.RootSort, p.Ref)
					s := d.Get(0, o)
					if d.Get(1, o) == "0" {
						return s
					}
					return sSl(SSeqI, s, d.Get(1, o), sLen(SSeqI, s))
				},
				set: func(st *State, v string) {
					o := st.heapSelect(p.RootSort, p.Ref)
					s := d.Get(0, o)
					st.heapStore(p.RootSort, p.Ref, d.With(o, 1, tSub(sLen(SSeqI, s), sLen(SSeqI, v))))
				},
			}
		case "io.SectionReader":
			return &stream{
				get: func(st *State) string {
					o := st.heapSelect(p.RootSort, p.Ref)
					s := d.Get(0, o)
					return sSl(SSeqI, s, d.Get(1, o), sLen(SSeqI, s))
				},
				set: func(st *State, v string) {
					o := st.heapSelect(p.RootSort, p.Ref)
					s := d.Get(0, o)
					st.heapStore(p.RootSort, p.Ref, d.With(o, 1, tSub(sLen(SSeqI, s), sLen(SSeqI, v))))
				},
			}
		}
	}
	return nil
}

// writerOf: the appended-bytes view of a writer value.
func (x *Exec) writerOf(st *State, v Val) (*stream, string) {
	switch u := v.(type) {
	case IfaceV:
		if u.Sym != "" {
			key := "out:" + u.Sym
			if _, ok := st.ghost[key]; !ok {
				return nil, ""
			}
			return &stream{
				get: func(st *State) string { return st.ghost[key].(TV).E },
				set: func(st *State, v string) { st.ghost[key] = TV{SSeqI, v} },
			}, u.Sym
		}
		if u.Payload != nil {
			return x.writerOf(st, u.Payload)
		}
	case PtrV:
		p, d, ok := x.bufContent(u)
		if ok && ghostFor(p.Elem) == "bytes.Buffer" {
			return &stream{
				get: func(st *State) string { return d.Get(0, st.heapSelect(p.RootSort, p.Ref)) },
				set: func(st *State, v string) {
					st.heapStore(p.RootSort, p.Ref, d.With(st.heapSelect(p.RootSort, p.Ref), 0, v))
				},
			}, ""
		}
	}
	return nil, ""
}

// writeInto stores decoded bytes into the elements of a slice value.
func (x *Exec) writeInto(st *State, dst Val, t types.Type, seq string) bool {
	switch d := dst.(type) {
	case SliceV:
		if st.frozen[d.Cell] {
			st.kill("write into shared backing array")
			return false
		}
		cur, ok := st.cells[d.Cell].(TV)
		if !ok {
			st.kill("write into Go-side array")
			return false
		}
		total := x.cellLen(st, d.Cell)
		var nv string
		if d.Lo == "0" && d.Hi == total {
			nv = seq
		} else {
			nv = sApp(cur.S, sApp(cur.S, sSl(cur.S, cur.E, "0", d.Lo), seq), sSl(cur.S, cur.E, d.Hi, total))
		}
		st.cells[d.Cell] = TV{cur.S, nv}
		return true
	case TV:
		st.assume("true")
		// immutable sequence: only an empty write is possible
		st.kill("write into a slice without local owner")
		return false
	case nil:
		return true
	}
	st.kill(fmt.Sprintf("writeInto %T", dst))
	return false
}

func orderOf(v Val, a ssa.Value) string {
	if mi, ok := a.(*ssa.MakeInterface); ok {
		if strings.Contains(mi.X.Type().String(), "bigEndian") {
			return "be"
		}
		return "le"
	}
	if iv, ok := v.(IfaceV); ok && iv.Dyn != nil && strings.Contains(iv.Dyn.String(), "bigEndian") {
		return "be"
	}
	return "le"
}

func init() {
	ext("encoding/binary.Read",
		"binary.Read(r, order, data): type-directed; reads exactly size(data) bytes; nil on success; io.EOF iff size>0 and nothing was available; io.ErrUnexpectedEOF on a partial read (which consumes the rest); a zero-size read succeeds without reading; non-fixed-size data => error, nothing read",
		func(x *Exec, st *State, fr *Frame, cc *ssa.CallCommon, args []Val, instr ssa.Instruction) []Outcome {
			order := orderOf(args[1], cc.Args[1])
			data, _ := args[2].(IfaceV)
			rd := x.readerOf(st, args[0])
			if rd == nil || data.Dyn == nil {
				x.note("binary.Read on unmodelled reader/target")
				x.havocForUnknown(st, args)
				return one(st, x.freshOrNilErr(st))
			}
			// size and store function by target type
			var size string
			var storeF func(st *State, chunk string)
			switch dt := data.Dyn.Underlying().(type) {
			case *types.Pointer:
				p, _ := data.Payload.(PtrV)
				et := dt.Elem()
				if n, ok := wireSize(et); ok {
					size = num(n)
					storeF = func(st *State, chunk string) {
						val := x.wireDecode(st, order, et, chunk)
						x.store(st, p, x.fromTV(st, TV{x.w.SortOf(et), val}, et))
					}
				} else if sl, ok := et.Underlying().(*types.Slice); ok {
					es, ok2 := wireSize(sl.Elem())
					if ok2 {
						cur := x.load(st, p)
						ln := x.lenOf(st, cur, et)
						size = tMulC(num(es), ln)
						storeF = func(st *State, chunk string) {
							x.writeInto(st, cur, et, x.decodeSeq(st, order, sl.Elem(), chunk, ln))
						}
					}
				}
			case *types.Slice:
				es, ok2 := wireSize(dt.Elem())
				if ok2 {
					ln := x.lenOf(st, data.Payload, data.Dyn)
					size = tMulC(num(es), ln)
					storeF = func(st *State, chunk string) {
						x.writeInto(st, data.Payload, data.Dyn, x.decodeSeq(st, order, dt.Elem(), chunk, ln))
					}
				}
			}
			if size == "" {
				return one(st, x.siteErr(instr)) // binary.Read: invalid type
			}
			rem := rd.get(st)
			rl := sLen(SSeqI, rem)
			var outs []Outcome
			if x.faulty && x.fallibleSource(st, args[0]) {
				f := st.fork()
				k := f.fresh("consumed", SInt)
				f.assume(tAnd(tCmp("<=", "0", k), tCmp("<=", k, rl)))
				rd.set(f, sSl(SSeqI, rem, k, rl))
				x.markFailed(f, "read")
				outs = append(outs, Outcome{f, x.freshErr(f, "rderr")})
			}
			szNum, szConst := isNum(size)
			// success
			ok := st.fork()
			ok.assume(tCmp("<=", size, rl))
			chunk := sSl(SSeqI, rem, "0", size)
			storeF(ok, chunk)
			if !(szConst && szNum.Sign() == 0) {
				rd.set(ok, sSl(SSeqI, rem, size, rl))
			}
			outs = append(outs, Outcome{ok, nilErr()})
			if !(szConst && szNum.Sign() == 0) {
				eof := st.fork()
				eof.assume(tAnd(tCmp("<", "0", size), tEq(rl, "0")))
				outs = append(outs, Outcome{eof, ErrV{Class: "1", Wrapped: "false"}})
				ueof := st
				ueof.assume(tAnd(tCmp("<", "0", rl), tCmp("<", rl, size)))
				rd.set(ueof, sEmpty(SSeqI))
				outs = append(outs, Outcome{ueof, ErrV{Class: "2", Wrapped: "false"}})
			}
			return outs
		})

	ext("encoding/binary.Write",
		"binary.Write(w, order, data): appends the fixed-size little/big-endian encoding of data to w; error (nothing written) for non-fixed-size data; a *bytes.Buffer never fails; another writer may fail unless the contract says memwriter(w)",
		func(x *Exec, st *State, fr *Frame, cc *ssa.CallCommon, args []Val, instr ssa.Instruction) []Outcome {
			order := orderOf(args[1], cc.Args[1])
			data, _ := args[2].(IfaceV)
			w, sym := x.writerOf(st, args[0])
			if w == nil || data.Dyn == nil && data.Sym == "" {
				x.note("binary.Write on unmodelled writer/data")
				x.havocForUnknown(st, args)
				return one(st, x.freshOrNilErr(st))
			}
			if data.Sym != "" {
				// data of unknown dynamic type: may be unsupported
				x.note("binary.Write of data with unknown dynamic type")
				e := st.fork()
				n := x.freshBytes(st, "wr")
				w.set(st, sApp(SSeqI, w.get(st), n))
				return []Outcome{{e, x.freshErr(e, "werr")}, {st, nilErr()}}
			}
			enc, ok := x.encodeVal(st, order, data.Dyn, data.Payload)
			if !ok {
				return one(st, x.siteErr(instr))
			}
			var outs []Outcome
			if sym != "" && st.ghost["memwriter:"+sym] == nil {
				e := st.fork()
				outs = append(outs, Outcome{e, x.freshErr(e, "werr")})
			}
			cur := w.get(st)
			if cur == sEmpty(SSeqI) {
				w.set(st, enc)
			} else {
				w.set(st, sApp(SSeqI, cur, enc))
			}
			outs = append(outs, Outcome{st, nilErr()})
			return outs
		})

	ext("encoding/binary.Size", "binary.Size(v): encoded size of a fixed-size value, -1 otherwise",
		func(x *Exec, st *State, fr *Frame, cc *ssa.CallCommon, args []Val, instr ssa.Instruction) []Outcome {
			data, _ := args[0].(IfaceV)
			if data.Dyn != nil {
				t := data.Dyn
				if pt, ok := t.Underlying().(*types.Pointer); ok {
					t = pt.Elem()
				}
				if n, ok := wireSize(t); ok {
					return one(st, TV{SInt, num(n)})
				}
				if _, isSl := t.Underlying().(*types.Slice); !isSl {
					return one(st, TV{SInt, "(- 1)"})
				}
			}
			return one(st, x.symVal(st, "binsize", types.Typ[types.Int]))
		})

	for _, o := range []string{"littleEndian", "bigEndian"} {
		for _, w := range []int{16, 32, 64} {
			o, w := o, w
			ord := "le"
			if o == "bigEndian" {
				ord = "be"
			}
			ext(fmt.Sprintf("(encoding/binary.%s).Uint%d", o, w), "ByteOrder.UintN(b): requires len(b) >= N/8 (panics otherwise); value of the first N/8 bytes",
				func(x *Exec, st *State, fr *Frame, cc *ssa.CallCommon, args []Val, instr ssa.Instruction) []Outcome {
					t := cc.Args[len(cc.Args)-1].Type()
					b := args[len(args)-1]
					s, e := x.seqOf(st, b, t)
					ln := x.lenOf(st, b, t)
					n := int64(w / 8)
					x.oblige(st, fr, x.ordinal(fr.fn, instr, "safe.extpre"), "safe.extpre", "", tCmp("<=", num(n), ln), instr, nil)
					st.assume(tCmp("<=", num(n), ln))
					chunk := e
					if ln != num(n) {
						chunk = sSl(s, e, "0", num(n))
					}
					v := app(fmt.Sprintf("g_%s%d", ord, w), chunk)
					return one(st, TV{SInt, v})
				})
		}
	}

	// ---- errors ---------------------------------------------------------
	wrap := func(x *Exec, st *State, fr *Frame, cc *ssa.CallCommon, args []Val, instr ssa.Instruction) []Outcome {
		e, ok := args[0].(ErrV)
		if !ok {
			return one(st, x.freshErr(st, "wrap"))
		}
		return one(st, ErrV{Class: e.Class, Wrapped: tNot(tEq(e.Class, "0"))})
	}
	ext("github.com/pkg/errors.Wrapf", "errors.Wrapf(err,…): nil for nil; otherwise an error that errors.Is-matches exactly what err matches", wrap)
	ext("github.com/pkg/errors.Wrap", "errors.Wrap(err,…): as Wrapf", wrap)
	isF := func(x *Exec, st *State, fr *Frame, cc *ssa.CallCommon, args []Val, instr ssa.Instruction) []Outcome {
		a, ok1 := args[0].(ErrV)
		b, ok2 := args[1].(ErrV)
		if !ok1 || !ok2 {
			return one(st, TV{SBool, st.fresh("is", SBool)})
		}
		return one(st, TV{SBool, tEq(a.Class, b.Class)})
	}
	ext("github.com/pkg/errors.Is", "errors.Is(err, target): err's chain contains target (class equality in the error model)", isF)
	ext("errors.Is", "errors.Is(err, target): err's chain contains target (class equality in the error model)", isF)
	newErr := func(x *Exec, st *State, fr *Frame, cc *ssa.CallCommon, args []Val, instr ssa.Instruction) []Outcome {
		return one(st, x.siteErr(instr))
	}
	ext("errors.New", "errors.New: a fresh non-nil error distinct from every sentinel", newErr)
	ext("github.com/pkg/errors.New", "errors.New: a fresh non-nil error distinct from every sentinel", newErr)
	ext("github.com/pkg/errors.Errorf", "errors.Errorf: a fresh non-nil error", newErr)
	ext("fmt.Errorf", "fmt.Errorf: non-nil; with %w it errors.Is-matches what the wrapped operand matches, otherwise nothing",
		func(x *Exec, st *State, fr *Frame, cc *ssa.CallCommon, args []Val, instr ssa.Instruction) []Outcome {
			format := ""
			if c, ok := cc.Args[0].(*ssa.Const); ok && c.Value != nil && c.Value.Kind() == constant.String {
				format = constant.StringVal(c.Value)
			}
			if idx := verbIndex(format, 'w'); idx >= 0 {
				if sl, ok := args[1].(SliceV); ok {
					if a, ok := st.cells[sl.Cell].(ArrV); ok && idx < len(a.Elems) {
						if iv, ok := a.Elems[idx].(IfaceV); ok {
							if ev, ok := iv.Payload.(ErrV); ok {
								return one(st, ErrV{Class: ev.Class, Wrapped: "true"})
							}
						}
						if ev, ok := a.Elems[idx].(ErrV); ok {
							// a nil operand still yields a non-nil error
							c := st.fresh("errw", SInt)
							st.assume(tIte(tEq(ev.Class, "0"), tEq(c, num(x.errClassOf("site:"+x.posOf(instr)))), tEq(c, ev.Class)))
							return one(st, ErrV{Class: c, Wrapped: "true"})
						}
					}
				}
				return one(st, x.freshErr(st, "errorf"))
			}
			return one(st, x.siteErr(instr))
		})

	// ---- log / exit -------------------------------------------------------
	fatal := func(x *Exec, st *State, fr *Frame, cc *ssa.CallCommon, args []Val, instr ssa.Instruction) []Outcome {
		x.safe(st, fr, "unreachable", "false", instr)
		st.kill("exit")
		return one(st, nil)
	}
	for _, n := range []string{"log.Fatal", "log.Fatalf", "log.Fatalln", "os.Exit", "log.Panic", "log.Panicf", "log.Panicln"} {
		ext(n, "terminates the process: the call site must be unreachable", fatal)
	}
	ext("(*golang.org/x/crypto/cryptobyte.Builder).BytesOrPanic", "Builder.BytesOrPanic: panics iff an earlier builder operation failed (the builder's error state is not modelled: the call site must be shown unreachable or is reported)",
		func(x *Exec, st *State, fr *Frame, cc *ssa.CallCommon, args []Val, instr ssa.Instruction) []Outcome {
			x.safe(st, fr, "unreachable", "false", instr)
			return one(st, x.symResult(st, cc))
		})
	noop := func(x *Exec, st *State, fr *Frame, cc *ssa.CallCommon, args []Val, instr ssa.Instruction) []Outcome {
		return one(st, x.symResult(st, cc))
	}
	for _, n := range []string{"log.Printf", "log.Println", "log.Print", "fmt.Printf", "fmt.Println", "fmt.Print"} {
		ext(n, "output only: no modelled effect", noop)
	}

	// ---- bytes.Buffer -----------------------------------------------------
	ext("bytes.NewBuffer", "bytes.NewBuffer(b): buffer whose unread content is b",
		func(x *Exec, st *State, fr *Frame, cc *ssa.CallCommon, args []Val, instr ssa.Instruction) []Outcome {
			_, s := x.seqOf(st, args[0], cc.Args[0].Type())
			t := cc.Signature().Results().At(0).Type().Underlying().(*types.Pointer).Elem()
			sort := x.w.SortOf(t)
			d := x.w.DTByName(sort)
			r := st.allocRef()
			st.heapStore(sort, r, d.Make([]string{s}))
			return one(st, PtrV{Ref: r, RootSort: sort, Elem: t})
		})
	ext("bytes.NewReader", "bytes.NewReader(b): reader over b at position 0",
		func(x *Exec, st *State, fr *Frame, cc *ssa.CallCommon, args []Val, instr ssa.Instruction) []Outcome {
			_, s := x.seqOf(st, args[0], cc.Args[0].Type())
			t := cc.Signature().Results().At(0).Type().Underlying().(*types.Pointer).Elem()
			sort := x.w.SortOf(t)
			d := x.w.DTByName(sort)
			r := st.allocRef()
			st.heapStore(sort, r, d.Make([]string{s, "0"}))
			return one(st, PtrV{Ref: r, RootSort: sort, Elem: t})
		})
	ext("(*bytes.Buffer).Len", "Buffer.Len: number of unread bytes",
		func(x *Exec, st *State, fr *Frame, cc *ssa.CallCommon, args []Val, instr ssa.Instruction) []Outcome {
			rd := x.recvStream(st, fr, args[0], instr)
			if rd == nil {
				return one(st, x.symResult(st, cc))
			}
			return one(st, TV{SInt, sLen(SSeqI, rd.get(st))})
		})
	ext("(*bytes.Reader).Len", "Reader.Len: number of unread bytes",
		func(x *Exec, st *State, fr *Frame, cc *ssa.CallCommon, args []Val, instr ssa.Instruction) []Outcome {
			rd := x.recvStream(st, fr, args[0], instr)
			if rd == nil {
				return one(st, x.symResult(st, cc))
			}
			return one(st, TV{SInt, sLen(SSeqI, rd.get(st))})
		})
	ext("(*bytes.Buffer).Bytes", "Buffer.Bytes: the unread bytes (not consumed)",
		func(x *Exec, st *State, fr *Frame, cc *ssa.CallCommon, args []Val, instr ssa.Instruction) []Outcome {
			rd := x.recvStream(st, fr, args[0], instr)
			if rd == nil {
				return one(st, x.symResult(st, cc))
			}
			c := rd.get(st)
			st.assume(app("g_isbytes", c))
			return one(st, TV{SSeqI, c})
		})
	ext("(*bytes.Buffer).Write", "Buffer.Write(p): appends p; returns len(p), nil",
		func(x *Exec, st *State, fr *Frame, cc *ssa.CallCommon, args []Val, instr ssa.Instruction) []Outcome {
			rd := x.recvStream(st, fr, args[0], instr)
			_, s := x.seqOf(st, args[1], cc.Args[1].Type())
			if rd == nil {
				return one(st, x.symResult(st, cc))
			}
			rd.set(st, sApp(SSeqI, rd.get(st), s))
			return one(st, TupleV{TV{SInt, sLen(SSeqI, s)}, nilErr()})
		})
	ext("(*bytes.Buffer).Truncate", "Buffer.Truncate(n): requires 0 <= n <= Len() (panics otherwise); keeps the first n unread bytes",
		func(x *Exec, st *State, fr *Frame, cc *ssa.CallCommon, args []Val, instr ssa.Instruction) []Outcome {
			rd := x.recvStream(st, fr, args[0], instr)
			n := x.toTV(st, args[1], types.Typ[types.Int]).E
			if rd == nil {
				return one(st, nil)
			}
			c := rd.get(st)
			g := tAnd(tCmp("<=", "0", n), tCmp("<=", n, sLen(SSeqI, c)))
			x.oblige(st, fr, x.ordinal(fr.fn, instr, "safe.extpre"), "safe.extpre", "", g, instr, nil)
			st.assume(g)
			rd.set(st, sSl(SSeqI, c, "0", n))
			return one(st, nil)
		})
	ext("(*bytes.Buffer).Next", "Buffer.Next(n): returns and consumes min(n, Len()) bytes; panics for n < 0",
		func(x *Exec, st *State, fr *Frame, cc *ssa.CallCommon, args []Val, instr ssa.Instruction) []Outcome {
			rd := x.recvStream(st, fr, args[0], instr)
			n := x.toTV(st, args[1], types.Typ[types.Int]).E
			if rd == nil {
				return one(st, x.symResult(st, cc))
			}
			c := rd.get(st)
			x.oblige(st, fr, x.ordinal(fr.fn, instr, "safe.extpre"), "safe.extpre", "", tCmp("<=", "0", n), instr, nil)
			st.assume(tCmp("<=", "0", n))
			m := tIte(tCmp("<", n, sLen(SSeqI, c)), n, sLen(SSeqI, c))
			rd.set(st, sSl(SSeqI, c, m, sLen(SSeqI, c)))
			return one(st, TV{SSeqI, sSl(SSeqI, c, "0", m)})
		})
	readInto := func(mode int) func(x *Exec, st *State, fr *Frame, cc *ssa.CallCommon, args []Val, instr ssa.Instruction) []Outcome {
		return func(x *Exec, st *State, fr *Frame, cc *ssa.CallCommon, args []Val, instr ssa.Instruction) []Outcome {
			rd := x.recvStream(st, fr, args[0], instr)
			if rd == nil {
				x.havocForUnknown(st, args[1:])
				return one(st, x.symResult(st, cc))
			}
			return x.readStream(st, rd, args[1], cc.Args[1].Type(), mode)
		}
	}
	ext("(*bytes.Buffer).Read", "Buffer.Read(p): copies min(len(p), Len()) bytes; io.EOF iff the buffer is empty and len(p) > 0", readInto(eofBuffer))
	ext("(*bytes.Reader).Read", "Reader.Read(p): copies min(len(p), Len()) bytes; io.EOF iff nothing is left (also for len(p) == 0)", readInto(eofReader))
	ext("(*bytes.Buffer).ReadByte", "Buffer.ReadByte: next byte, or io.EOF when empty",
		func(x *Exec, st *State, fr *Frame, cc *ssa.CallCommon, args []Val, instr ssa.Instruction) []Outcome {
			rd := x.recvStream(st, fr, args[0], instr)
			if rd == nil {
				return one(st, x.symResult(st, cc))
			}
			c := rd.get(st)
			e := st.fork()
			e.assume(tEq(sLen(SSeqI, c), "0"))
			st.assume(tCmp("<", "0", sLen(SSeqI, c)))
			b := sIdx(SSeqI, c, "0")
			st.assume(app("g_isbytes", c))
			st.assume(tAnd(tCmp("<=", "0", b), tCmp("<=", b, "255")))
			rd.set(st, sSl(SSeqI, c, "1", sLen(SSeqI, c)))
			return []Outcome{{e, TupleV{TV{SInt, "0"}, ErrV{Class: "1", Wrapped: "false"}}}, {st, TupleV{TV{SInt, b}, nilErr()}}}
		})
	ext("(*bytes.Buffer).ReadFrom", "Buffer.ReadFrom(r): appends everything r yields until EOF; returns the count and any non-EOF error",
		func(x *Exec, st *State, fr *Frame, cc *ssa.CallCommon, args []Val, instr ssa.Instruction) []Outcome {
			w := x.recvStream(st, fr, args[0], instr)
			rd := x.readerOf(st, args[1])
			if w == nil {
				return one(st, x.symResult(st, cc))
			}
			if rd == nil {
				// unmodelled reader: unknown bytes arrive
				n := x.freshBytes(st, "readfrom")
				w.set(st, sApp(SSeqI, w.get(st), n))
				x.havocReachable(st, args[1])
				return one(st, TupleV{TV{SInt, sLen(SSeqI, n)}, x.freshOrNilErr(st)})
			}
			rem := rd.get(st)
			w.set(st, sApp(SSeqI, w.get(st), rem))
			rd.set(st, sEmpty(SSeqI))
			return one(st, TupleV{TV{SInt, sLen(SSeqI, rem)}, nilErr()})
		})
	ext("bytes.Equal", "bytes.Equal(a,b): same length and same bytes",
		func(x *Exec, st *State, fr *Frame, cc *ssa.CallCommon, args []Val, instr ssa.Instruction) []Outcome {
			_, a := x.seqOf(st, args[0], cc.Args[0].Type())
			_, b := x.seqOf(st, args[1], cc.Args[1].Type())
			// the contrapositive of extensionality, instantiated for this pair: unequal
			// sequences of one length differ at some index
			d := app(SSeqI+"_diff", a, b)
			st.assume(tImp(tAnd(tNot(tEq(a, b)), tEq(sLen(SSeqI, a), sLen(SSeqI, b))),
				tAnd(tCmp("<=", "0", d), tCmp("<", d, sLen(SSeqI, a)), tNot(tEq(sIdx(SSeqI, a, d), sIdx(SSeqI, b, d))))))
			return one(st, TV{SBool, tEq(a, b)})
		})
	ext("reflect.DeepEqual", "reflect.DeepEqual on slices/structs of fixed-size data: structural equality; a nil and an empty slice are NOT deeply equal (modelled as an unknown outcome when both operands are empty)",
		func(x *Exec, st *State, fr *Frame, cc *ssa.CallCommon, args []Val, instr ssa.Instruction) []Outcome {
			a, _ := args[0].(IfaceV)
			b, _ := args[1].(IfaceV)
			if a.Dyn == nil || b.Dyn == nil || !types.Identical(a.Dyn, b.Dyn) {
				return one(st, TV{SBool, st.fresh("deepeq", SBool)})
			}
			switch u := a.Dyn.Underlying().(type) {
			case *types.Slice:
				s, ea := x.seqOf(st, a.Payload, a.Dyn)
				_, eb := x.seqOf(st, b.Payload, b.Dyn)
				nilAgree := st.fresh("nilagree", SBool)
				return one(st, TV{SBool, tAnd(tEq(ea, eb), tOr(tCmp("<", "0", sLen(s, ea)), nilAgree))})
			case *types.Pointer:
				pa, ok1 := a.Payload.(PtrV)
				pb, ok2 := b.Payload.(PtrV)
				if ok1 && ok2 && isStructLike(u.Elem()) {
					// equal pointers, or deeply equal pointees (over-approximated by an unknown when refs differ)
					// a true answer for different references implies equal pointees
					same := x.ptrEq(st, pa, pb)
					unk := st.fresh("deepeq", SBool)
					if !pa.Nil && !pb.Nil && pa.Ref != "" && pb.Ref != "" && len(pa.Path) == 0 && len(pb.Path) == 0 {
						sort := x.w.SortOf(u.Elem())
						st.assume(tImp(unk, tEq(st.heapSelect(sort, pa.Ref), st.heapSelect(sort, pb.Ref))))
					}
					return one(st, TV{SBool, tOr(same, unk)})
				}
			}
			return one(st, TV{SBool, st.fresh("deepeq", SBool)})
		})
	ext("encoding/pem.Decode", "pem.Decode(data): (nil, data) when data holds no PEM block (pemok false), otherwise a block whose Bytes = pemdecode(data) are no longer than data; both are functions of data only; never panics",
		func(x *Exec, st *State, fr *Frame, cc *ssa.CallCommon, args []Val, instr ssa.Instruction) []Outcome {
			_, in := x.seqOf(st, args[0], cc.Args[0].Type())
			bt := cc.Signature().Results().At(0).Type()
			pt := bt.Underlying().(*types.Pointer).Elem()
			sort := x.w.SortOf(pt)
			// whether the input holds a PEM block, and which bytes it carries, are
			// (uninterpreted) functions of the input
			x.w.Decl("(declare-fun g_pemdecode (" + SSeqI + ") " + SSeqI + ")")
			x.w.Decl("(declare-fun g_pemok (" + SSeqI + ") Bool)")
			none := st.fork()
			none.assume(tNot(app("g_pemok", in)))
			st.assume(app("g_pemok", in))
			blk := x.symVal(st, "pemblock", bt).(PtrV)
			st.assume(tNot(tEq(blk.Ref, "0")))
			if d := x.w.DTByName(sort); d != nil {
				if i := d.FieldIndex("Bytes"); i >= 0 {
					by := d.Get(i, st.heapSelect(sort, blk.Ref))
					st.assume(tCmp("<=", sLen(SSeqI, by), sLen(SSeqI, in)))
					st.assume(app("g_isbytes", by))
					st.assume(tEq(by, app("g_pemdecode", in)))
				}
			}
			rest := x.freshBytes(st, "pemrest")
			return []Outcome{{none, TupleV{PtrV{Nil: true, Elem: pt}, TV{SSeqI, in}}}, {st, TupleV{blk, TV{SSeqI, rest}}}}
		})
	ext("io.Copy", "io.Copy(dst, src): moves everything src yields into dst; a *bytes.Buffer destination never fails",
		func(x *Exec, st *State, fr *Frame, cc *ssa.CallCommon, args []Val, instr ssa.Instruction) []Outcome {
			w, _ := x.writerOf(st, args[0])
			rd := x.readerOf(st, args[1])
			if w == nil || rd == nil {
				x.note("io.Copy between unmodelled streams")
				x.havocForUnknown(st, args)
				return one(st, x.symResult(st, cc))
			}
			rem := rd.get(st)
			var outs []Outcome
			if x.faulty && x.fallibleSource(st, args[1]) {
				f := st.fork()
				k := f.fresh("copied", SInt)
				f.assume(tAnd(tCmp("<=", "0", k), tCmp("<=", k, sLen(SSeqI, rem))))
				w.set(f, sApp(SSeqI, w.get(f), sSl(SSeqI, rem, "0", k)))
				rd.set(f, sSl(SSeqI, rem, k, sLen(SSeqI, rem)))
				x.markFailed(f, "read")
				outs = append(outs, Outcome{f, TupleV{TV{SInt, k}, x.freshErr(f, "copyerr")}})
			}
			w.set(st, sApp(SSeqI, w.get(st), rem))
			rd.set(st, sEmpty(SSeqI))
			return append(outs, Outcome{st, TupleV{TV{SInt, sLen(SSeqI, rem)}, nilErr()}})
		})
	ext("io.CopyN", "io.CopyN(dst, src, n): moves min(n, available) bytes; nil iff n bytes were moved, io.EOF otherwise; allocation proportional to the bytes moved",
		func(x *Exec, st *State, fr *Frame, cc *ssa.CallCommon, args []Val, instr ssa.Instruction) []Outcome {
			w, _ := x.writerOf(st, args[0])
			rd := x.readerOf(st, args[1])
			n := x.toTV(st, args[2], types.Typ[types.Int64]).E
			if w == nil || rd == nil {
				x.note("io.CopyN between unmodelled streams")
				x.havocForUnknown(st, args)
				return one(st, x.symResult(st, cc))
			}
			rem := rd.get(st)
			rl := sLen(SSeqI, rem)
			var pre []Outcome
			if x.faulty && x.fallibleSource(st, args[1]) {
				f := st.fork()
				k := f.fresh("copied", SInt)
				f.assume(tAnd(tCmp("<=", "0", k), tCmp("<=", k, rl), tCmp("<=", k, n)))
				w.set(f, sApp(SSeqI, w.get(f), sSl(SSeqI, rem, "0", k)))
				rd.set(f, sSl(SSeqI, rem, k, rl))
				x.markFailed(f, "read")
				e := x.freshErr(f, "copyerr")
				f.assume(tNot(tEq(e.Class, "1")))
				pre = append(pre, Outcome{f, TupleV{TV{SInt, k}, e}})
			}
			short := st.fork()
			short.assume(tAnd(tCmp("<", rl, n)))
			w.set(short, sApp(SSeqI, w.get(short), rem))
			rd.set(short, sEmpty(SSeqI))
			st.assume(tCmp("<=", n, rl))
			neg := tCmp("<", n, "0")
			_ = neg
			st.assume(tCmp("<=", "0", n))
			w.set(st, sApp(SSeqI, w.get(st), sSl(SSeqI, rem, "0", n)))
			rd.set(st, sSl(SSeqI, rem, n, rl))
			return append(pre, []Outcome{{short, TupleV{TV{SInt, rl}, ErrV{Class: "1", Wrapped: "false"}}}, {st, TupleV{TV{SInt, n}, nilErr()}}}...)
		})
	ext("io.ReadAll", "io.ReadAll(r): everything r yields until EOF",
		func(x *Exec, st *State, fr *Frame, cc *ssa.CallCommon, args []Val, instr ssa.Instruction) []Outcome {
			rd := x.readerOf(st, args[0])
			if rd == nil {
				n := x.freshBytes(st, "readall")
				x.havocReachable(st, args[0])
				e := st.fork()
				return []Outcome{{e, TupleV{TV{SSeqI, n}, x.freshErr(e, "rderr")}}, {st, TupleV{TV{SSeqI, n}, nilErr()}}}
			}
			rem := rd.get(st)
			rd.set(st, sEmpty(SSeqI))
			return one(st, TupleV{TV{SSeqI, rem}, nilErr()})
		})
}

func (x *Exec) freshOrNilErr(st *State) ErrV {
	c := st.fresh("err", SInt)
	st.assume(tCmp("<=", "0", c))
	return ErrV{Class: c, Wrapped: st.fresh("errw", SBool)}
}

func (x *Exec) recvStream(st *State, fr *Frame, recv Val, instr ssa.Instruction) *stream {
	if p, ok := recv.(PtrV); ok {
		x.nilCheck(st, fr, p, instr)
	}
	return x.readerOf(st, recv)
}

// readStream: the contract of Read(p) on an in-memory stream.
// What a Read with len(p) == 0 on an exhausted stream returns differs between implementations:
// bytes.Buffer answers (0, nil), bytes.Reader answers (0, io.EOF), and an io.Reader of unknown
// dynamic type may do either.
const (
	eofBuffer  = iota // io.EOF iff nothing is left and len(p) > 0
	eofReader         // io.EOF iff nothing is left
	eofUnknown        // nothing left and len(p) == 0: either answer
)

func (x *Exec) readStream(st *State, rd *stream, p Val, pt types.Type, mode int) []Outcome {
	rem := rd.get(st)
	pl := x.lenOf(st, p, pt)
	rl := sLen(SSeqI, rem)
	var outs []Outcome
	e := st.fork()
	switch mode {
	case eofBuffer:
		e.assume(tAnd(tEq(rl, "0"), tCmp("<", "0", pl)))
		st.assume(tOr(tCmp("<", "0", rl), tEq(pl, "0")))
	case eofReader:
		e.assume(tEq(rl, "0"))
		st.assume(tCmp("<", "0", rl))
	default:
		e.assume(tEq(rl, "0"))
		st.assume(tOr(tCmp("<", "0", rl), tEq(pl, "0")))
	}
	outs = append(outs, Outcome{e, TupleV{TV{SInt, "0"}, ErrV{Class: "1", Wrapped: "false"}}})
	// a full read (the buffer is filled) and a short one are separate paths: the terms of the
	// common case stay free of min(len(p), remaining)
	short := st.fork()
	short.assume(tCmp("<", rl, pl))
	st.assume(tCmp("<=", pl, rl))
	for _, c := range []struct {
		s *State
		n string
	}{{short, rl}, {st, pl}} {
		s, n := c.s, c.n
		if sv, ok := p.(SliceV); ok {
			// write n bytes at the start of the window
			cur, _ := s.cells[sv.Cell].(TV)
			total := x.cellLen(s, sv.Cell)
			nv := sApp(cur.S, sApp(cur.S, sSl(cur.S, cur.E, "0", sv.Lo), sSl(SSeqI, rem, "0", n)), sSl(cur.S, cur.E, tAdd(sv.Lo, n), total))
			if s.frozen[sv.Cell] {
				s.kill("read into shared backing array")
			} else {
				s.cells[sv.Cell] = TV{cur.S, nv}
			}
		} else if pl != "0" {
			s.kill("Read into a slice without local owner")
		}
		rd.set(s, sSl(SSeqI, rem, n, rl))
		outs = append(outs, Outcome{s, TupleV{TV{SInt, n}, nilErr()}})
	}
	return outs
}

// decodeSeq decodes a sequence of ln fixed-size elements.
func (x *Exec) decodeSeq(st *State, order string, et types.Type, chunk, ln string) string {
	if isByteElem(et) {
		return chunk
	}
	sort := x.w.SeqSort(x.w.SortOf(et))
	fn := "g_decseq_" + order + "_" + sort
	x.w.Decl(fmt.Sprintf("(declare-fun %s (%s) %s)", fn, SSeqI, sort))
	r := app(fn, chunk)
	st.assume(tEq(sLen(sort, r), ln))
	return r
}

// encodeVal encodes a Go value for binary.Write.
func (x *Exec) encodeVal(st *State, order string, t types.Type, v Val) (string, bool) {
	if pt, ok := t.Underlying().(*types.Pointer); ok {
		p, okp := v.(PtrV)
		if !okp {
			return "", false
		}
		if _, ok := wireSize(pt.Elem()); !ok {
			return "", false
		}
		inner := x.load(st, p)
		return x.encodeVal(st, order, pt.Elem(), inner)
	}
	if _, ok := wireSize(t); ok {
		tv := x.toTV(st, v, t)
		return x.wireEncode(st, order, t, tv.E), true
	}
	if sl, ok := t.Underlying().(*types.Slice); ok {
		if isByteElem(sl.Elem()) {
			_, s := x.seqOf(st, v, t)
			return s, true
		}
		if _, ok := wireSize(sl.Elem()); ok {
			sort, s := x.seqOf(st, v, t)
			fn := "g_encseq_" + order + "_" + sort
			x.w.Decl(fmt.Sprintf("(declare-fun %s (%s) %s)", fn, sort, SSeqI))
			r := app(fn, s)
			st.assume(app("g_isbytes", r))
			return r, true
		}
	}
	return "", false
}

func verbIndex(format string, verb byte) int {
	idx := 0
	for i := 0; i < len(format); i++ {
		if format[i] != '%' {
			continue
		}
		i++
		for i < len(format) && strings.IndexByte("+-# 0123456789.", format[i]) >= 0 {
			i++
		}
		if i >= len(format) {
			break
		}
		if format[i] == '%' {
			continue
		}
		if format[i] == verb {
			return idx
		}
		idx++
	}
	return -1
}

// fallibleSource: in fault mode, a reader whose bytes ultimately come from a
// caller-supplied object (anything but an in-memory bytes.Reader/Buffer built
// in the verified code) may fail at any read.
func (x *Exec) fallibleSource(st *State, v Val) bool {
	switch u := v.(type) {
	case IfaceV:
		if u.Sym != "" {
			return true
		}
		if u.Payload != nil {
			return x.fallibleSource(st, u.Payload)
		}
	case PtrV:
		if u.Ref == "" {
			return false
		}
		switch ghostFor(u.Elem) {
		case "bytes.Buffer", "bytes.Reader":
			return false
		case "io.SectionReader":
			d := x.w.DTByName(u.RootSort)
			src := d.Get(2, st.heapSelect(u.RootSort, u.Ref))
			// the source is infallible only if it is a bytes.Reader allocated here
			if rs := x.w.DTByName("T_bytes_Reader"); rs != nil {
				h := st.heap("T_bytes_Reader")
				for {
					dd, ok := st.x.heapDefs[h]
					if !ok {
						break
					}
					if dd.ref == src {
						return false
					}
					h = dd.prev
				}
			}
			return true
		}
		return true
	}
	return false
}
