package main

// Assumed contracts: wall clock and civil time (package time), and the
// Marshal method of a caller-supplied efivar.Marshallable.
//
// A time.Time is modelled by one integer (its abs__ component) that stands for
// "instant and location".  time.Now() reads the clock: a fresh such value,
// remembered as the ghost clock reading.  UTC() maps it to the same instant in
// UTC (an idempotent uninterpreted function); the civil fields are
// uninterpreted functions of the value, so Year() of a local time and of its
// UTC image are unrelated unless the code converts - which is the point of C06.

import (
	"fmt"
	"go/types"

	"golang.org/x/tools/go/ssa"
)

var timeFields = []string{"Year", "Month", "Day", "Hour", "Minute", "Second", "Nanosecond"}

func timePrelude() string {
	s := "(declare-fun g_tutc (Int) Int)\n(declare-fun g_tzero (Int) Bool)\n(declare-fun g_utf16ascii (" + SSeqI + ") " + SSeqI + ")\n"
	for _, f := range timeFields {
		s += fmt.Sprintf("(declare-fun g_t%s (Int) Int)\n", f)
	}
	return s
}

// utf16Axioms: the unfolding of utf16ascii matches on every (slice, index) pair, so it is only
// given to queries that mention the function.
func utf16Axioms() string {
	return `
(assert (= (g_utf16ascii g_SeqI_empty) g_SeqI_empty))
(assert (forall ((s g_SeqI)) (! (= (g_SeqI_len (g_utf16ascii s)) (* 2 (g_SeqI_len s))) :pattern ((g_utf16ascii s)))))
(assert (forall ((s g_SeqI)) (! (=> (g_isbytes s) (g_isbytes (g_utf16ascii s))) :pattern ((g_utf16ascii s)))))
(assert (forall ((s g_SeqI) (i Int)) (! (=> (and (<= 0 i) (< i (g_SeqI_len s)))
   (= (g_utf16ascii (g_SeqI_sl s 0 (+ i 1))) (g_SeqI_build (g_SeqI_build (g_utf16ascii (g_SeqI_sl s 0 i)) (g_SeqI_idx s i)) 0)))
   :pattern ((g_utf16ascii (g_SeqI_sl s 0 i)) (g_SeqI_idx s i)))))
`
}

func timePreludeQ() string {
	return `
(assert (forall ((t Int)) (! (= (g_tutc (g_tutc t)) (g_tutc t)) :pattern ((g_tutc (g_tutc t))))))
(assert (forall ((t Int)) (! (and (<= 1 (g_tMonth t)) (<= (g_tMonth t) 12) (<= 1 (g_tDay t)) (<= (g_tDay t) 31) (<= 0 (g_tHour t)) (<= (g_tHour t) 23)
   (<= 0 (g_tMinute t)) (<= (g_tMinute t) 59) (<= 0 (g_tSecond t)) (<= (g_tSecond t) 59) (<= 0 (g_tNanosecond t)) (<= (g_tNanosecond t) 999999999)) :pattern ((g_tutc t)))))
`
}

func timeAbs(x *Exec, st *State, v Val) (string, *DT, string, bool) {
	tv, ok := v.(TV)
	if !ok {
		return "", nil, "", false
	}
	d := x.w.DTByName(tv.S)
	if d == nil || d.FieldIndex("abs__") < 0 {
		return "", nil, "", false
	}
	return d.Get(d.FieldIndex("abs__"), tv.E), d, tv.S, true
}

func init() {
	ext("time.Now", "time.Now: reads the wall clock: a fresh time value in the process's local zone, recorded as the ghost clock reading now()",
		func(x *Exec, st *State, fr *Frame, cc *ssa.CallCommon, args []Val, instr ssa.Instruction) []Outcome {
			t := cc.Signature().Results().At(0).Type()
			sort := x.w.SortOf(t)
			d := x.w.DTByName(sort)
			if d == nil || d.FieldIndex("abs__") < 0 {
				return one(st, x.symResult(st, cc))
			}
			a := st.fresh("now", SInt)
			st.ghost["clock"] = TV{SSeqI, sBuild(SSeqI, x.clockGet(st), a)}
			return one(st, TV{sort, d.Make([]string{a})})
		})
	ext("(time.Time).UTC", "Time.UTC: the same instant with the location set to UTC (idempotent)",
		func(x *Exec, st *State, fr *Frame, cc *ssa.CallCommon, args []Val, instr ssa.Instruction) []Outcome {
			a, d, sort, ok := timeAbs(x, st, args[0])
			if !ok {
				return one(st, x.symResult(st, cc))
			}
			return one(st, TV{sort, d.Make([]string{app("g_tutc", a)})})
		})
	for _, f := range timeFields {
		f := f
		ext("(time.Time)."+f, "Time."+f+": the civil "+f+" of the instant in the value's location (a function of the value)",
			func(x *Exec, st *State, fr *Frame, cc *ssa.CallCommon, args []Val, instr ssa.Instruction) []Outcome {
				a, _, _, ok := timeAbs(x, st, args[0])
				if !ok {
					return one(st, x.symResult(st, cc))
				}
				v := app("g_t"+f, a)
				rt := cc.Signature().Results().At(0).Type()
				if r, isInt := intRangeOf(rt); isInt {
					st.assume(r.inRange(v))
				}
				switch f {
				case "Month":
					st.assume(tAnd(tCmp("<=", "1", v), tCmp("<=", v, "12")))
				case "Day":
					st.assume(tAnd(tCmp("<=", "1", v), tCmp("<=", v, "31")))
				case "Hour":
					st.assume(tAnd(tCmp("<=", "0", v), tCmp("<=", v, "23")))
				case "Minute", "Second":
					st.assume(tAnd(tCmp("<=", "0", v), tCmp("<=", v, "59")))
				case "Nanosecond":
					st.assume(tAnd(tCmp("<=", "0", v), tCmp("<=", v, "999999999")))
				}
				return one(st, TV{SInt, v})
			})
	}
	ext("(time.Time).IsZero", "Time.IsZero: a predicate of the time value",
		func(x *Exec, st *State, fr *Frame, cc *ssa.CallCommon, args []Val, instr ssa.Instruction) []Outcome {
			a, _, _, ok := timeAbs(x, st, args[0])
			if !ok {
				return one(st, x.symResult(st, cc))
			}
			return one(st, TV{SBool, app("g_tzero", a)})
		})
	specFuncs["timezero"] = func(e *specEnv, args []SV) SV {
		return SV{V: TV{SBool, app("g_tzero", e.timeTerm(args[0]))}}
	}
	specFuncs["utcenc"] = func(e *specEnv, args []SV) SV {
		return SV{V: TV{SSeqI, app("g_utcenc", e.timeTerm(args[0]))}, T: types.NewSlice(types.Typ[types.Uint8])}
	}
	specFuncs["utcok"] = func(e *specEnv, args []SV) SV {
		return SV{V: TV{SBool, app("g_utcok", e.timeTerm(args[0]))}}
	}
	specFuncs["oidenc"] = func(e *specEnv, args []SV) SV {
		return SV{V: TV{SSeqI, app("g_oidenc", e.term(args[0]))}, T: types.NewSlice(types.Typ[types.Uint8])}
	}
	specFuncs["oidvalid"] = func(e *specEnv, args []SV) SV {
		return SV{V: TV{SBool, app("g_oidvalid", e.term(args[0]))}}
	}
	specFuncs["intenc"] = func(e *specEnv, args []SV) SV {
		return SV{V: TV{SSeqI, app("g_intenc", e.term(args[0]))}, T: types.NewSlice(types.Typ[types.Uint8])}
	}
	specFuncs["bigenc"] = func(e *specEnv, args []SV) SV { // bigenc(bigval(p))
		return SV{V: TV{SSeqI, app("g_bigenc", e.term(args[0]))}, T: types.NewSlice(types.Typ[types.Uint8])}
	}
	specFuncs["builderok"] = func(e *specEnv, args []SV) SV { // no operation on the cryptobyte.Builder has failed so far
		p, ok := args[0].V.(PtrV)
		if !ok || p.Ref == "" || ghostFor(p.Elem) != "cryptobyte.Builder" {
			return e.fail("builderok() needs a *cryptobyte.Builder")
		}
		d := e.x.w.DTByName(p.RootSort)
		return SV{V: TV{SBool, tNot(d.Get(1, e.st.heapSelect(p.RootSort, p.Ref)))}}
	}
	specFuncs["utf16ascii"] = func(e *specEnv, args []SV) SV { // each byte followed by a zero byte (UTF-16LE of ASCII text)
		return SV{V: TV{SSeqI, app("g_utf16ascii", e.term(args[0]))}, T: types.NewSlice(types.Typ[types.Uint8])}
	}
	specFuncs["lastsig"] = func(e *specEnv, args []SV) SV { // what the last successful crypto.Signer.Sign returned
		if g, ok := e.st.ghost["lastsig"]; ok {
			return SV{V: g, T: types.NewSlice(types.Typ[types.Uint8])}
		}
		e.x.w.Decl("(declare-fun g_nosig () " + SSeqI + ")") // total: unspecified when nothing was signed
		return SV{V: TV{SSeqI, "g_nosig"}, T: types.NewSlice(types.Typ[types.Uint8])}
	}
	specFuncs["signedby"] = func(e *specEnv, args []SV) SV { // signedby(signer, digest, sig)
		iv, ok := args[0].V.(IfaceV)
		if !ok || iv.Sym == "" {
			return e.fail("signedby() needs a symbolic signer")
		}
		e.x.w.Decl("(declare-fun g_signedby (Int " + SSeqI + " " + SSeqI + ") Bool)")
		return SV{V: TV{SBool, app("g_signedby", iv.Sym, e.term(args[1]), e.term(args[2]))}}
	}
	specFuncs["now"] = func(e *specEnv, args []SV) SV { // the last clock reading (unspecified if there is none)
		c := e.x.clockGet(e.st)
		return SV{V: TV{SInt, sIdx(SSeqI, c, tSub(sLen(SSeqI, c), "1"))}}
	}
	specFuncs["readings"] = func(e *specEnv, args []SV) SV { // all clock readings of the process so far, in order
		return SV{V: TV{SSeqI, e.x.clockGet(e.st)}}
	}
	specFuncs["utc"] = func(e *specEnv, args []SV) SV {
		return SV{V: TV{SInt, app("g_tutc", e.term(args[0]))}}
	}
	for _, f := range timeFields {
		f := f
		specFuncs["t"+f] = func(e *specEnv, args []SV) SV {
			return SV{V: TV{SInt, app("g_t"+f, e.term(args[0]))}, T: types.Typ[types.Int]}
		}
	}

	// efivar.Marshallable.Marshal(*bytes.Buffer) on a caller-supplied value
	ifaceMethods["Marshal"] = func(x *Exec, st *State, fr *Frame, cc *ssa.CallCommon, iv IfaceV, args []Val, instr ssa.Instruction) []Outcome {
		if iv.Sym == "" || len(args) != 1 {
			return nil
		}
		w, _ := x.writerOf(st, args[0])
		if w == nil {
			return nil
		}
		x.w.Decl("(declare-fun g_marshal (Int) " + SSeqI + ")")
		pay := app("g_marshal", iv.Sym)
		st.assume(app("g_isbytes", pay))
		st.assume(tAnd(tCmp("<=", "0", sLen(SSeqI, pay)), tCmp("<=", sLen(SSeqI, pay), maxLenLit)))
		x.traceAdd(st, 9, x.w.StrLit("Marshal"), "0", sEmpty(SSeqI))
		w.set(st, sApp(SSeqI, w.get(st), pay))
		return one(st, nil)
	}
	externDoc["interface method Marshal"] = "efivar.Marshallable.Marshal(b) of a caller-supplied value: appends marshal(m), a byte string that depends on m only (pure and repeatable: ASSUMED of every implementation), to b; recorded on the ghost trace"
	specFuncs["marshal"] = func(e *specEnv, args []SV) SV {
		iv, ok := args[0].V.(IfaceV)
		if ok && iv.Sym == "" && iv.Dyn != nil && iv.Dyn.String() == "*"+modPath+"/efi/signature.SignatureDatabase" {
			// a database handed over as a Marshallable: what (*SignatureDatabase).Marshal is proved to write
			db := e.deref(SV{V: iv.Payload, T: iv.Dyn})
			if e.err == nil {
				return specFuncs["encLists"](e, []SV{specFuncs["lists"](e, []SV{db})})
			}
		}
		if !ok || iv.Sym == "" {
			return e.fail("marshal() needs a symbolic Marshallable or a *SignatureDatabase")
		}
		e.x.w.Decl("(declare-fun g_marshal (Int) " + SSeqI + ")")
		return SV{V: TV{SSeqI, app("g_marshal", iv.Sym)}, T: types.NewSlice(types.Typ[types.Uint8])}
	}
}

// timeTerm: the integer standing for a time value (a time.Time struct value or already an integer).
func (e *specEnv) timeTerm(v SV) string {
	if tv, ok := v.V.(TV); ok {
		if d := e.x.w.DTByName(tv.S); d != nil && d.FieldIndex("abs__") >= 0 {
			return d.Get(d.FieldIndex("abs__"), tv.E)
		}
	}
	return e.term(v)
}

// clockGet: the ghost sequence of wall clock readings; untouched, it is one shared constant per unit.
func (x *Exec) clockGet(st *State) string {
	if g, ok := st.ghost["clock"]; ok {
		return g.(TV).E
	}
	if x.initialClock == "" {
		x.freshN++
		x.initialClock = fmt.Sprintf("g_clock_init_%d", x.freshN)
		x.w.Decl(fmt.Sprintf("(declare-fun %s () %s)", x.initialClock, SSeqI))
	}
	st.ghost["clock"] = TV{SSeqI, x.initialClock}
	return x.initialClock
}

// golang.org/x/text UTF-16 writer (property C17): what transform.NewWriter(w, UTF16(LE).NewEncoder())
// writes is modelled by an uninterpreted function utf16le of the bytes handed to Write.
func init() {
	ext("golang.org/x/text/transform.NewWriter", "transform.NewWriter(w, t): a non-nil writer that hands what t produces to w",
		func(x *Exec, st *State, fr *Frame, cc *ssa.CallCommon, args []Val, instr ssa.Instruction) []Outcome {
			p, ok := x.symVal(st, "xtw", cc.Signature().Results().At(0).Type()).(PtrV)
			if !ok {
				return one(st, x.symResult(st, cc))
			}
			st.assume(tNot(tEq(p.Ref, "0")))
			st.ghost["xtw:"+p.Ref] = args[0]
			return one(st, p)
		})
	ext("(*golang.org/x/text/transform.Writer).Write", "transform.Writer.Write(p) with the UTF-16 little-endian encoder: appends utf16le(p) to the underlying writer (assumed: each call's bytes are complete UTF-8 sequences and are encoded independently); returns len(p), nil for an in-memory writer",
		func(x *Exec, st *State, fr *Frame, cc *ssa.CallCommon, args []Val, instr ssa.Instruction) []Outcome {
			p, ok := args[0].(PtrV)
			var under Val
			if ok {
				under = st.ghost["xtw:"+p.Ref]
			}
			var rd *stream
			if under != nil {
				rd = x.readerOf(st, under)
			}
			if rd == nil {
				x.havocForUnknown(st, args)
				return one(st, x.symResult(st, cc))
			}
			_, s := x.seqOf(st, args[1], cc.Args[1].Type())
			x.w.Decl("(declare-fun g_utf16le (" + SSeqI + ") " + SSeqI + ")")
			enc := app("g_utf16le", s)
			st.assume(app("g_isbytes", enc))
			st.assume(tAnd(tCmp("<=", "0", sLen(SSeqI, enc)), tCmp("<=", sLen(SSeqI, enc), tMulC("4", sLen(SSeqI, s)))))
			rd.set(st, sApp(SSeqI, rd.get(st), enc))
			return one(st, TupleV{TV{SInt, sLen(SSeqI, s)}, nilErr()})
		})
	specFuncs["utf16le"] = func(e *specEnv, args []SV) SV { // UTF-16LE encoding of UTF-8 text (uninterpreted)
		e.x.w.Decl("(declare-fun g_utf16le (" + SSeqI + ") " + SSeqI + ")")
		return SV{V: TV{SSeqI, app("g_utf16le", e.term(args[0]))}, T: types.NewSlice(types.Typ[types.Uint8])}
	}
}

// golang.org/x/text UTF-16 reader (property C17, decode direction): what io.ReadAll obtains from
// transform.NewReader(r, UTF16(LE).NewDecoder()) is an uninterpreted function utf16dec of what r held.
func init() {
	ext("golang.org/x/text/transform.NewReader", "transform.NewReader(r, t): a non-nil reader that yields what t makes of r's bytes",
		func(x *Exec, st *State, fr *Frame, cc *ssa.CallCommon, args []Val, instr ssa.Instruction) []Outcome {
			p, ok := x.symVal(st, "xtr", cc.Signature().Results().At(0).Type()).(PtrV)
			if !ok {
				return one(st, x.symResult(st, cc))
			}
			st.assume(tNot(tEq(p.Ref, "0")))
			st.ghost["xtr:"+p.Ref] = args[0]
			return one(st, p)
		})
	prev := externs["io.ReadAll"]
	ext("io.ReadAll", "io.ReadAll(r): everything r yields until EOF; on a transform.Reader with the UTF-16 little-endian decoder: utf16dec of everything the underlying in-memory reader held (the decoder replaces malformed input, it does not fail)",
		func(x *Exec, st *State, fr *Frame, cc *ssa.CallCommon, args []Val, instr ssa.Instruction) []Outcome {
			var p PtrV
			switch u := args[0].(type) {
			case PtrV:
				p = u
			case IfaceV:
				if q, ok := u.Payload.(PtrV); ok {
					p = q
				}
			}
			if p.Ref != "" {
				if under, ok := st.ghost["xtr:"+p.Ref]; ok {
					if rd := x.readerOf(st, under); rd != nil {
						x.w.Decl("(declare-fun g_utf16dec (" + SSeqI + ") " + SSeqI + ")")
						dec := app("g_utf16dec", rd.get(st))
						st.assume(app("g_isbytes", dec))
						st.assume(tAnd(tCmp("<=", "0", sLen(SSeqI, dec)), tCmp("<=", sLen(SSeqI, dec), maxLenLit)))
						rd.set(st, sEmpty(SSeqI))
						return one(st, TupleV{TV{SSeqI, dec}, nilErr()})
					}
				}
			}
			return prev(x, st, fr, cc, args, instr)
		})
	ext("bytes.Trim", "bytes.Trim(b, cutset): an uninterpreted function trim(b, cutset), no longer than b",
		func(x *Exec, st *State, fr *Frame, cc *ssa.CallCommon, args []Val, instr ssa.Instruction) []Outcome {
			_, b := x.seqOf(st, args[0], cc.Args[0].Type())
			_, c := x.seqOf(st, args[1], cc.Args[1].Type())
			x.w.Decl("(declare-fun g_trim (" + SSeqI + " " + SSeqI + ") " + SSeqI + ")")
			r := app("g_trim", b, c)
			st.assume(app("g_isbytes", r))
			st.assume(tAnd(tCmp("<=", "0", sLen(SSeqI, r)), tCmp("<=", sLen(SSeqI, r), sLen(SSeqI, b))))
			return one(st, TV{SSeqI, r})
		})
	specFuncs["utf16dec"] = func(e *specEnv, args []SV) SV {
		e.x.w.Decl("(declare-fun g_utf16dec (" + SSeqI + ") " + SSeqI + ")")
		return SV{V: TV{SSeqI, app("g_utf16dec", e.term(args[0]))}, T: types.NewSlice(types.Typ[types.Uint8])}
	}
	specFuncs["trim"] = func(e *specEnv, args []SV) SV {
		e.x.w.Decl("(declare-fun g_trim (" + SSeqI + " " + SSeqI + ") " + SSeqI + ")")
		return SV{V: TV{SSeqI, app("g_trim", e.term(args[0]), e.term(args[1]))}, T: types.NewSlice(types.Typ[types.Uint8])}
	}
}
