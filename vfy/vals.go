package main

// Conversions between Go-side values and SMT terms; loads and stores.

import (
	"fmt"
	"go/constant"
	"go/types"
	"math/big"
	"strings"

	"golang.org/x/tools/go/ssa"
)

func isStructLike(t types.Type) bool {
	switch u := t.(type) {
	case *types.Named:
		if ghostFor(u) != "" {
			return true
		}
		if _, ok := u.Underlying().(*types.Struct); ok {
			return true
		}
		return false
	case *types.Alias:
		return isStructLike(types.Unalias(u))
	case *types.Struct:
		return true
	}
	return false
}

// ghostFor returns the ghost-struct name modelling t ("" if none).
func ghostFor(t types.Type) string {
	n, ok := t.(*types.Named)
	if !ok {
		return ""
	}
	sn := shortTypeName(n)
	if ghostStructs[sn] != nil {
		return sn
	}
	// named types defined as `type X bytes.Buffer`
	if st, ok := n.Underlying().(*types.Struct); ok && st.NumFields() > 0 {
		f := st.Field(0)
		if f.Pkg() != nil && f.Pkg().Path() == "bytes" && f.Name() == "buf" {
			return "bytes.Buffer"
		}
	}
	return ""
}

// maxLenLit: no slice or string has more than 2^48 elements (the Go runtime's
// maximum allocation size on 64-bit platforms).
const maxLenLit = "281474976710656"

func isByteElem(t types.Type) bool {
	b, ok := t.Underlying().(*types.Basic)
	return ok && (b.Kind() == types.Uint8 || b.Kind() == types.Int8 && false)
}

func isErrorType(t types.Type) bool {
	n, ok := t.(*types.Named)
	return ok && n.Obj().Pkg() == nil && n.Obj().Name() == "error"
}

func isInterface(t types.Type) bool {
	_, ok := t.Underlying().(*types.Interface)
	return ok
}

// smtElem: can values of this type live inside an SMT sequence/datatype with
// full fidelity?  (Interfaces, funcs and maps lose their Go-side structure.)
func smtFaithful(t types.Type) bool {
	switch u := t.Underlying().(type) {
	case *types.Basic:
		return true
	case *types.Struct:
		return true
	case *types.Array:
		return smtFaithful(u.Elem())
	case *types.Slice:
		return smtFaithful(u.Elem())
	case *types.Pointer:
		return isStructLike(u.Elem())
	}
	return false
}

// typeFacts: assumptions that hold of every value of Go type t represented by term.
func (x *Exec) typeFacts(st *State, t types.Type, term string) {
	if _, ok := isNum(term); ok {
		return
	}
	switch u := t.Underlying().(type) {
	case *types.Basic:
		if r, ok := intRangeOf(t); ok {
			st.assume(r.inRange(term))
		} else if u.Info()&types.IsString != 0 {
			st.assume(app("g_isbytes", term))
			st.assume(tAnd(tCmp("<=", "0", sLen(SSeqI, term)), tCmp("<=", sLen(SSeqI, term), maxLenLit)))
		}
	case *types.Slice:
		if isByteElem(u.Elem()) {
			st.assume(app("g_isbytes", term))
		}
		st.assume(tAnd(tCmp("<=", "0", sLen(x.w.SortOf(t), term)), tCmp("<=", sLen(x.w.SortOf(t), term), maxLenLit)))
		if pt, ok := u.Elem().Underlying().(*types.Pointer); ok && isStructLike(pt.Elem()) {
			// every stored reference was allocated before now
			x.freshN++
			q := fmt.Sprintf("q_i_%d", x.freshN)
			e := sIdx(SSeqI, term, q)
			if !strings.Contains(term, "(ite ") {
				st.assume(fmt.Sprintf("(forall ((%s Int)) (! (=> (and (<= 0 %s) (< %s %s)) (and (<= 0 %s) (< %s %s))) :pattern (%s)))", q, q, q, sLen(SSeqI, term), e, e, st.top, e))
			}
		}
	case *types.Array:
		st.assume(tEq(sLen(x.w.SortOf(t), term), num(u.Len())))
		if isByteElem(u.Elem()) {
			st.assume(app("g_isbytes", term))
		}
	case *types.Pointer:
		st.assume(tAnd(tCmp("<=", "0", term), tCmp("<", term, st.top)))
	}
}

// fromTV wraps an SMT term of Go type t as a Val (adding its type facts).
func (x *Exec) fromTV(st *State, tv TV, t types.Type) Val {
	switch u := t.Underlying().(type) {
	case *types.Pointer:
		x.typeFacts(st, t, tv.E)
		return PtrV{Ref: tv.E, RootSort: x.w.SortOf(u.Elem()), Elem: u.Elem()}
	case *types.Interface:
		if isErrorType(t) {
			w := st.fresh("wr", SBool)
			return ErrV{Class: tv.E, Wrapped: w}
		}
		return IfaceV{Sym: tv.E, Static: t}
	case *types.Signature:
		return OpaqueV{"func:" + tv.E}
	case *types.Map:
		return OpaqueV{"map:" + tv.E}
	}
	x.typeFacts(st, t, tv.E)
	return tv
}

// toTV lowers a Val to an SMT term of the sort of t.
func (x *Exec) toTV(st *State, v Val, t types.Type) TV {
	sort := x.w.SortOf(t)
	switch u := v.(type) {
	case TV:
		return u
	case PtrV:
		if u.Nil {
			return TV{SInt, "0"}
		}
		if u.Ref != "" && len(u.Path) == 0 {
			return TV{SInt, u.Ref}
		}
		st.kill(fmt.Sprintf("pointer %v cannot be stored in SMT-level memory", u))
		return TV{SInt, st.fresh("lostptr", SInt)}
	case SliceV:
		return TV{sort, x.freeze(st, u)}
	case ErrV:
		return TV{SInt, u.Class}
	case IfaceV:
		if u.Sym != "" {
			return TV{SInt, u.Sym}
		}
		if u.Dyn == nil {
			return TV{SInt, "0"}
		}
		// statically known dynamic type: identity is the payload reference
		if p, ok := u.Payload.(PtrV); ok && p.Ref != "" && len(p.Path) == 0 {
			dynDecl(x)
			st.assume(tEq(app("g_dyn", p.Ref), num(x.typeTag(u.Dyn))))
			x.ifaceStored(st, u, p)
			return TV{SInt, p.Ref}
		}
		id := st.fresh("iface", SInt)
		st.assume(tCmp("<", "0", id))
		return TV{SInt, id}
	case ArrV:
		// array of Go-side values: lower elementwise
		at, _ := t.Underlying().(*types.Array)
		var et types.Type
		if at != nil {
			et = at.Elem()
		} else if sl, ok := t.Underlying().(*types.Slice); ok {
			et = sl.Elem()
		}
		s := sEmpty(sort)
		for _, e := range u.Elems {
			s = sBuild(sort, s, x.toTV(st, e, et).E)
		}
		return TV{sort, s}
	case OpaqueV, ClosureV, MapV:
		return TV{SInt, st.fresh("opaque", SInt)}
	case nil:
		return TV{sort, x.zeroTerm(t)}
	}
	st.kill(fmt.Sprintf("cannot lower %T", v))
	return TV{sort, st.fresh("lost", sort)}
}

func (x *Exec) typeTag(t types.Type) int64 {
	k := typeKey(t)
	if id, ok := x.typeTags[k]; ok {
		return id
	}
	id := int64(len(x.typeTags) + 1)
	x.typeTags[k] = id
	return id
}

// freeze turns a window on a Go-side array cell into an immutable sequence.
func (x *Exec) freeze(st *State, s SliceV) string {
	c := st.cells[s.Cell]
	st.frozen[s.Cell] = true
	var base TV
	switch cv := c.(type) {
	case TV:
		base = cv
	case ArrV:
		base = x.toTV(st, cv, s.Cell.typ)
	default:
		st.kill("freeze of non-array cell")
		return sEmpty(SSeqI)
	}
	ln := sLen(base.S, base.E)
	if s.Lo == "0" && (s.Hi == ln || x.cellLen(st, s.Cell) == s.Hi) {
		return base.E
	}
	return sSl(base.S, base.E, s.Lo, s.Hi)
}

// cellLen returns the length term of an array cell.
func (x *Exec) cellLen(st *State, c *Cell) string {
	if a, ok := c.typ.Underlying().(*types.Array); ok {
		return num(a.Len())
	}
	switch cv := st.cells[c].(type) {
	case TV:
		if l, ok := st.ghost[fmt.Sprintf("len:%d", c.id)]; ok {
			return l.(TV).E
		}
		return sLen(cv.S, cv.E)
	case ArrV:
		return num(int64(len(cv.Elems)))
	}
	return "0"
}

// seqOf returns (sort, term) of any slice/array/string valued Val.
func (x *Exec) seqOf(st *State, v Val, t types.Type) (string, string) {
	switch u := v.(type) {
	case TV:
		return u.S, u.E
	case SliceV:
		sort := x.w.SortOf(t)
		return sort, x.freeze(st, u)
	case nil:
		sort := x.w.SortOf(t)
		return sort, sEmpty(sort)
	case ArrV:
		tv := x.toTV(st, u, t)
		return tv.S, tv.E
	}
	sort := x.w.SortOf(t)
	st.kill(fmt.Sprintf("seqOf %T", v))
	return sort, sEmpty(sort)
}

func (x *Exec) lenOf(st *State, v Val, t types.Type) string {
	switch u := v.(type) {
	case SliceV:
		return tSub(u.Hi, u.Lo)
	case TV:
		if a, ok := t.Underlying().(*types.Array); ok {
			return num(a.Len())
		}
		return sLen(u.S, u.E)
	case ArrV:
		return num(int64(len(u.Elems)))
	case nil:
		return "0"
	}
	return "0"
}

// zeroTerm is the SMT zero value of Go type t.
func (x *Exec) zeroTerm(t types.Type) string {
	sort := x.w.SortOf(t)
	switch u := t.Underlying().(type) {
	case *types.Basic:
		switch sort {
		case SBool:
			return "false"
		case SSeqI:
			return sEmpty(SSeqI)
		}
		return "0"
	case *types.Array:
		return sConst(sort, num(u.Len()), x.zeroTerm(u.Elem()))
	case *types.Slice:
		return sEmpty(sort)
	case *types.Struct:
		if sort == SInt {
			return "0"
		}
		d := x.w.DTByName(sort)
		var fs []string
		for _, f := range d.Fields {
			if f.Type != nil {
				fs = append(fs, x.zeroTerm(f.Type))
			} else {
				fs = append(fs, x.zeroOfSort(f.Sort))
			}
		}
		return d.Make(fs)
	}
	if d := x.w.DTByName(sort); d != nil { // ghost structs
		var fs []string
		for _, f := range d.Fields {
			fs = append(fs, x.zeroOfSort(f.Sort))
		}
		return d.Make(fs)
	}
	return "0"
}

func (x *Exec) zeroOfSort(s string) string {
	switch s {
	case SInt:
		return "0"
	case SBool:
		return "false"
	}
	if _, ok := x.w.seqSorts[s]; ok {
		return sEmpty(s)
	}
	if d := x.w.DTByName(s); d != nil {
		var fs []string
		for _, f := range d.Fields {
			fs = append(fs, x.zeroOfSort(f.Sort))
		}
		return d.Make(fs)
	}
	return "0"
}

// zeroVal is the Go-side zero value.
func (x *Exec) zeroVal(st *State, t types.Type) Val {
	switch u := t.Underlying().(type) {
	case *types.Pointer:
		return PtrV{Nil: true, Elem: u.Elem()}
	case *types.Interface:
		if isErrorType(t) {
			return ErrV{Class: "0", Wrapped: "false"}
		}
		return IfaceV{Static: t}
	case *types.Signature:
		return ClosureV{}
	case *types.Map:
		return OpaqueV{"nilmap"}
	case *types.Array:
		if !smtFaithful(u.Elem()) {
			a := ArrV{}
			for i := int64(0); i < u.Len(); i++ {
				a.Elems = append(a.Elems, x.zeroVal(st, u.Elem()))
			}
			return a
		}
	}
	return TV{x.w.SortOf(t), x.zeroTerm(t)}
}

// symVal creates an unconstrained symbolic value of type t (with type facts).
func (x *Exec) symVal(st *State, hint string, t types.Type) Val {
	switch u := t.Underlying().(type) {
	case *types.Pointer:
		if isStructLike(u.Elem()) {
			r := st.fresh(hint, SInt)
			x.typeFacts(st, t, r)
			return PtrV{Ref: r, RootSort: x.w.SortOf(u.Elem()), Elem: u.Elem()}
		}
		c := st.newCell(hint, u.Elem(), nil)
		st.cells[c] = x.symVal(st, hint+"_v", u.Elem())
		return PtrV{Cell: c, Elem: u.Elem()}
	case *types.Interface:
		if isErrorType(t) {
			c := st.fresh(hint, SInt)
			st.assume(tCmp("<=", "0", c))
			return ErrV{Class: c, Wrapped: st.fresh(hint+"_w", SBool)}
		}
		id := st.fresh(hint, SInt)
		st.assume(tAnd(tCmp("<=", "0", id), tCmp("<", id, st.top)))
		iv := IfaceV{Sym: id, Static: t}
		x.initIfaceGhost(st, iv)
		return iv
	case *types.Signature:
		return OpaqueV{"func"}
	case *types.Map:
		return OpaqueV{"map"}
	case *types.Tuple:
		var tv TupleV
		for i := 0; i < u.Len(); i++ {
			tv = append(tv, x.symVal(st, fmt.Sprintf("%s_%d", hint, i), u.At(i).Type()))
		}
		return tv
	}
	sort := x.w.SortOf(t)
	c := st.fresh(hint, sort)
	x.typeFacts(st, t, c)
	return TV{sort, c}
}

// ---------------------------------------------------------------------------
// paths

func (x *Exec) rootType(p PtrV) types.Type {
	switch {
	case p.Cell != nil:
		return p.Cell.typ
	}
	return nil
}

// pathGet applies a selection path to an SMT value.
func (x *Exec) pathGetTV(st *State, cur TV, path []PathEl) TV {
	for _, el := range path {
		if el.IsIdx {
			es := x.w.ElemSort(cur.S)
			cur = TV{es, sIdx(cur.S, cur.E, el.Idx)}
			if x.w.DTByName(es) != nil {
				// keep the element term alive as an E-matching trigger: a copy into a local
				// that is never read again would otherwise be simplified away by the solver
				x.w.Decl(fmt.Sprintf("(declare-fun g_seen_%s (%s) Bool)", es, es))
				st.assume(app("g_seen_"+es, cur.E))
			}
		} else {
			d := x.w.DTByName(cur.S)
			if d == nil {
				st.kill("field selection on non-datatype sort " + cur.S)
				return cur
			}
			cur = TV{d.Fields[el.Field].Sort, d.Get(el.Field, cur.E)}
		}
	}
	return cur
}

func (x *Exec) pathSetTV(st *State, cur TV, path []PathEl, nv string) string {
	if len(path) == 0 {
		return nv
	}
	el := path[0]
	if el.IsIdx {
		es := x.w.ElemSort(cur.S)
		inner := x.pathSetTV(st, TV{es, sIdx(cur.S, cur.E, el.Idx)}, path[1:], nv)
		return sUpd(cur.S, cur.E, el.Idx, inner)
	}
	d := x.w.DTByName(cur.S)
	if d == nil {
		st.kill("field update on non-datatype sort " + cur.S)
		return cur.E
	}
	inner := x.pathSetTV(st, TV{d.Fields[el.Field].Sort, d.Get(el.Field, cur.E)}, path[1:], nv)
	return d.With(cur.E, el.Field, inner)
}

// load reads through a pointer. The caller has already emitted nil checks.
func (x *Exec) load(st *State, p PtrV) Val {
	switch {
	case p.Nil:
		st.kill("load through nil")
		return x.zeroVal(st, p.Elem)
	case p.Cell != nil:
		cur := st.cells[p.Cell]
		if len(p.Path) == 0 {
			return cur
		}
		// paths into cells: ArrV element or TV selection
		if a, ok := cur.(ArrV); ok && p.Path[0].IsIdx {
			k, okk := isNum(p.Path[0].Idx)
			if !okk || k.Int64() < 0 || int(k.Int64()) >= len(a.Elems) {
				st.kill("symbolic index into Go-side array")
				return x.zeroVal(st, p.Elem)
			}
			el := a.Elems[k.Int64()]
			if len(p.Path) == 1 {
				return el
			}
			if tv, ok := el.(TV); ok {
				return x.fromTV(st, x.pathGetTV(st, tv, p.Path[1:]), p.Elem)
			}
			st.kill("deep path into Go-side array")
			return x.zeroVal(st, p.Elem)
		}
		if tv, ok := cur.(TV); ok {
			return x.fromTV(st, x.pathGetTV(st, tv, p.Path), p.Elem)
		}
		st.kill(fmt.Sprintf("path load from %T", cur))
		return x.zeroVal(st, p.Elem)
	case p.Imm != nil:
		return x.fromTV(st, x.pathGetTV(st, *p.Imm, p.Path), p.Elem)
	case p.Ref != "":
		root := TV{p.RootSort, st.heapSelect(p.RootSort, p.Ref)}
		return x.fromTV(st, x.pathGetTV(st, root, p.Path), p.Elem)
	}
	st.kill("load through empty pointer")
	return x.zeroVal(st, p.Elem)
}

func (x *Exec) store(st *State, p PtrV, v Val) {
	switch {
	case p.Nil:
		st.kill("store through nil")
	case p.Cell != nil:
		if st.frozen[p.Cell] {
			st.kill("write to a backing array after it was shared as a value (single-owner discipline): " + p.Cell.String())
			return
		}
		if len(p.Path) == 0 {
			st.cells[p.Cell] = v
			return
		}
		cur := st.cells[p.Cell]
		if a, ok := cur.(ArrV); ok && p.Path[0].IsIdx {
			k, okk := isNum(p.Path[0].Idx)
			if !okk || k.Int64() < 0 || int(k.Int64()) >= len(a.Elems) {
				st.kill("symbolic index store into Go-side array")
				return
			}
			na := ArrV{Elems: append([]Val(nil), a.Elems...)}
			if len(p.Path) == 1 {
				na.Elems[k.Int64()] = v
			} else if tv, ok := na.Elems[k.Int64()].(TV); ok {
				nv := x.toTV(st, v, p.Elem)
				na.Elems[k.Int64()] = TV{tv.S, x.pathSetTV(st, tv, p.Path[1:], nv.E)}
			} else {
				st.kill("deep store into Go-side array")
			}
			st.cells[p.Cell] = na
			return
		}
		if tv, ok := cur.(TV); ok {
			nv := x.toTV(st, v, p.Elem)
			st.cells[p.Cell] = TV{tv.S, x.pathSetTV(st, tv, p.Path, nv.E)}
			return
		}
		st.kill(fmt.Sprintf("path store into %T", cur))
	case p.Imm != nil:
		st.kill("store into an immutable value sequence (slice without local owner)")
	case p.Ref != "":
		nv := x.toTV(st, v, p.Elem)
		root := TV{p.RootSort, st.heapSelect(p.RootSort, p.Ref)}
		st.heapStore(p.RootSort, p.Ref, x.pathSetTV(st, root, p.Path, nv.E))
	}
}

// ---------------------------------------------------------------------------
// constants

func (x *Exec) constVal(st *State, c *ssa.Const) Val {
	t := c.Type()
	if c.Value == nil {
		return x.zeroVal(st, t)
	}
	switch c.Value.Kind() {
	case constant.Bool:
		return TV{SBool, tBool(constant.BoolVal(c.Value))}
	case constant.String:
		return TV{SSeqI, x.w.StrLit(constant.StringVal(c.Value))}
	case constant.Int:
		n, _ := new(big.Int).SetString(c.Value.ExactString(), 10)
		if n == nil {
			n = big.NewInt(0)
		}
		return TV{SInt, numLit(n)}
	}
	return TV{SInt, st.fresh("const", SInt)}
}

func describeVal(v Val) string {
	s := fmt.Sprintf("%v", v)
	if len(s) > 120 {
		s = s[:120] + "…"
	}
	return strings.ReplaceAll(s, "\n", " ")
}

// freshBytes: an unconstrained byte string (with the facts every []byte satisfies).
func (x *Exec) freshBytes(st *State, hint string) string {
	n := st.fresh(hint, SSeqI)
	st.assume(app("g_isbytes", n))
	st.assume(tAnd(tCmp("<=", "0", sLen(SSeqI, n)), tCmp("<=", sLen(SSeqI, n), maxLenLit)))
	return n
}

// peek: the current content of a window without freezing its backing cell.
func (x *Exec) peek(st *State, s SliceV) string {
	switch cv := st.cells[s.Cell].(type) {
	case TV:
		if s.Lo == "0" && x.cellLen(st, s.Cell) == s.Hi {
			return cv.E
		}
		return sSl(cv.S, cv.E, s.Lo, s.Hi)
	}
	return x.freeze(st, s)
}

// dynDecl declares the dynamic-type tag of interface identities (0 = nil).
func dynDecl(x *Exec) {
	x.w.Decl("(declare-fun g_dyn (Int) Int)")
	x.w.Decl("(assert (= (g_dyn 0) 0))")
}
