package main

// Assumed contract of the afero.Fs / afero.File interfaces: every call is an
// event on a ghost I/O trace; files behave like regular files of an abstract
// store path -> bytes (the semantics of afero.MemMapFs and of POSIX files as
// far as open flags, positional writes and sizes are concerned).

import (
	"fmt"
	"go/types"
	"strings"

	"golang.org/x/tools/go/ssa"
)

const evSort = "T_ghost_Event"

// event kinds
const (
	evOpenFile = 1
	evOpen     = 2
	evCreate   = 3
	evWrite    = 4
	evClose    = 5
	evStat     = 6
	evProbe    = 8
	evGetVar   = 10 // EFIVars.GetVar(v, out) on a caller-supplied store: (name, attributes) of v
)

func (w *World) ghostDT(name string, fields []DTField) *DT {
	if d := w.DTByName(name); d != nil {
		return d
	}
	d := &DT{Name: name, Fields: fields}
	w.dtByKey["ghost:"+name] = d
	w.dtOrder = append(w.dtOrder, d)
	return d
}

func (x *Exec) eventDT() *DT {
	return x.w.ghostDT(evSort, []DTField{{Name: "kind", Sort: SInt}, {Name: "path", Sort: SSeqI}, {Name: "flags", Sort: SInt}, {Name: "data", Sort: SSeqI}})
}

func (x *Exec) traceSort() string {
	x.eventDT()
	return x.w.SeqSort(evSort)
}

func (x *Exec) storeSort() string { return "(Array " + SSeqI + " " + SSeqI + ")" }

// traceGet: the current I/O trace (a shared initial constant per unit).
func (x *Exec) traceGet(st *State) string {
	if v, ok := st.ghost["trace"]; ok {
		return v.(TV).E
	}
	ts := x.traceSort()
	if x.initialTrace == "" {
		x.freshN++
		x.initialTrace = fmt.Sprintf("g_trace_init_%d", x.freshN)
		x.w.Decl(fmt.Sprintf("(declare-fun %s () %s)", x.initialTrace, ts))
	}
	st.ghost["trace"] = TV{ts, x.initialTrace}
	return x.initialTrace
}

func (x *Exec) traceAdd(st *State, kind int, path, flags, data string) {
	d := x.eventDT()
	ts := x.traceSort()
	cur := x.traceGet(st)
	st.ghost["trace"] = TV{ts, sBuild(ts, cur, d.Make([]string{num(int64(kind)), path, flags, data}))}
}

// storeGet: the abstract file store (path -> content) and existence map.
func (x *Exec) storeGet(st *State) (string, string) {
	if v, ok := st.ghost["store"]; ok {
		return v.(TV).E, st.ghost["exists"].(TV).E
	}
	if x.initialStore == "" {
		x.freshN++
		x.initialStore = fmt.Sprintf("g_store_init_%d", x.freshN)
		x.w.Decl(fmt.Sprintf("(declare-fun %s () %s)", x.initialStore, x.storeSort()))
		x.w.Decl(fmt.Sprintf("(declare-fun %s_ex () (Array %s Bool))", x.initialStore, SSeqI))
	}
	st.ghost["store"] = TV{x.storeSort(), x.initialStore}
	st.ghost["exists"] = TV{"(Array " + SSeqI + " Bool)", x.initialStore + "_ex"}
	return x.initialStore, x.initialStore + "_ex"
}

// POSIX open flags (linux/amd64)
const (
	oWRONLY = 1
	oRDWR   = 2
	oCREATE = 64
	oTRUNC  = 512
	oAPPEND = 1024
)

func flagSet(flags string, bit int64) string {
	return tEq(tModC(tDivC(flags, bigFrom(bit)), big2), "1")
}

func bigFrom(n int64) *bigInt { return new(bigInt).SetInt64(n) }

func (x *Exec) openFile(st *State, cc *ssa.CallCommon, path, flags string, kind int) []Outcome {
	x.traceAdd(st, kind, path, flags, sEmpty(SSeqI))
	res := cc.Signature().Results()
	bad := st.fork()
	// a successful open yields a handle bound to the path
	h := st.fresh("fh", SInt)
	st.assume(tAnd(tCmp("<", "0", h), tCmp("<", h, st.top)))
	store, ex := x.storeGet(st)
	content := app("select", store, path)
	st.assume(app("g_isbytes", content))
	st.assume(tAnd(tCmp("<=", "0", sLen(SSeqI, content)), tCmp("<=", sLen(SSeqI, content), maxLenLit)))
	exists := app("select", ex, path)
	if !x.faulty {
		// without O_CREATE an absent file cannot be opened
		st.assume(tOr(exists, flagSet(flags, oCREATE)))
	}
	// O_CREATE creates an empty file; O_TRUNC empties it
	newContent := tIte(tOr(tAnd(tNot(exists), flagSet(flags, oCREATE)), flagSet(flags, oTRUNC)), sEmpty(SSeqI), content)
	if kind == evCreate {
		newContent = sEmpty(SSeqI)
	}
	if kind != evOpen {
		c2 := st.fresh("content", SSeqI)
		st.assume(tEq(c2, newContent))
		st.assume(app("g_isbytes", c2))
		st.ghost["store"] = TV{x.storeSort(), app("store", store, path, c2)}
		st.ghost["exists"] = TV{"(Array " + SSeqI + " Bool)", app("store", ex, path, "true")}
		content = c2
	}
	st.ghost["rem:"+h] = TV{SSeqI, content}
	st.ghost["out:"+h] = TV{SSeqI, sEmpty(SSeqI)}
	st.ghost["fh:path:"+h] = TV{SSeqI, path}
	st.ghost["fh:flags:"+h] = TV{SInt, flags}
	st.ghost["fh:pos:"+h] = TV{SInt, "0"}
	file := IfaceV{Sym: h, Static: res.At(0).Type()}
	x.markFailed(bad, "open")
	return []Outcome{{bad, TupleV{x.zeroVal(bad, res.At(0).Type()), x.freshErr(bad, "openerr")}}, {st, TupleV{file, nilErr()}}}
}

func init() {
	ifaceMethods["OpenFile"] = func(x *Exec, st *State, fr *Frame, cc *ssa.CallCommon, iv IfaceV, args []Val, instr ssa.Instruction) []Outcome {
		if len(args) != 3 {
			return nil
		}
		_, path := x.seqOf(st, args[0], cc.Args[0].Type())
		flags := x.toTV(st, args[1], types.Typ[types.Int]).E
		return x.openFile(st, cc, path, flags, evOpenFile)
	}
	ifaceMethods["Open"] = func(x *Exec, st *State, fr *Frame, cc *ssa.CallCommon, iv IfaceV, args []Val, instr ssa.Instruction) []Outcome {
		if len(args) != 1 {
			return nil
		}
		_, path := x.seqOf(st, args[0], cc.Args[0].Type())
		return x.openFile(st, cc, path, "0", evOpen)
	}
	ifaceMethods["Create"] = func(x *Exec, st *State, fr *Frame, cc *ssa.CallCommon, iv IfaceV, args []Val, instr ssa.Instruction) []Outcome {
		if len(args) != 1 {
			return nil
		}
		_, path := x.seqOf(st, args[0], cc.Args[0].Type())
		return x.openFile(st, cc, path, num(oRDWR|oCREATE|oTRUNC), evCreate)
	}
	ifaceMethods["Remove"] = func(x *Exec, st *State, fr *Frame, cc *ssa.CallCommon, iv IfaceV, args []Val, instr ssa.Instruction) []Outcome {
		if len(args) != 1 {
			return nil
		}
		_, path := x.seqOf(st, args[0], cc.Args[0].Type())
		x.traceAdd(st, 7, path, "0", sEmpty(SSeqI))
		store, ex := x.storeGet(st)
		exists := app("select", ex, path)
		// absent: fs.ErrNotExist
		absent := st.fork()
		absent.assume(tNot(exists))
		// other failure: nothing changes
		bad := st.fork()
		st.assume(exists)
		st.ghost["store"] = TV{x.storeSort(), app("store", store, path, sEmpty(SSeqI))}
		st.ghost["exists"] = TV{"(Array " + SSeqI + " Bool)", app("store", ex, path, "false")}
		e := x.freshErr(bad, "rmerr")
		bad.assume(tNot(tEq(e.Class, "3")))
		return []Outcome{{absent, ErrV{Class: "3", Wrapped: "true"}}, {bad, e}, {st, nilErr()}}
	}
	externDoc["interface method Remove"] = "afero.Fs.Remove(name): recorded on the trace; removes the file, or fails with fs.ErrNotExist iff it is absent, or fails otherwise without effect"
	ifaceMethods["Name"] = func(x *Exec, st *State, fr *Frame, cc *ssa.CallCommon, iv IfaceV, args []Val, instr ssa.Instruction) []Outcome {
		return one(st, TV{SSeqI, x.freshBytes(st, "fsname")})
	}
	ifaceMethods["Close"] = func(x *Exec, st *State, fr *Frame, cc *ssa.CallCommon, iv IfaceV, args []Val, instr ssa.Instruction) []Outcome {
		p, ok := st.ghost["fh:path:"+iv.Sym]
		if !ok {
			return one(st, x.freshOrNilErr(st))
		}
		x.traceAdd(st, evClose, p.(TV).E, "0", sEmpty(SSeqI))
		bad := st.fork()
		x.markFailed(bad, "close")
		return []Outcome{{bad, x.freshErr(bad, "closeerr")}, {st, nilErr()}}
	}
	ifaceMethods["Stat"] = func(x *Exec, st *State, fr *Frame, cc *ssa.CallCommon, iv IfaceV, args []Val, instr ssa.Instruction) []Outcome {
		p, ok := st.ghost["fh:path:"+iv.Sym]
		if !ok {
			return nil
		}
		x.traceAdd(st, evStat, p.(TV).E, "0", sEmpty(SSeqI))
		res := cc.Signature().Results()
		bad := st.fork()
		info := st.fresh("finfo", SInt)
		st.assume(tAnd(tCmp("<", "0", info), tCmp("<", info, st.top)))
		store, _ := x.storeGet(st)
		viewDecl(x)
		st.assume(tEq(app("g_size", info), sLen(SSeqI, app("select", store, p.(TV).E))))
		x.markFailed(bad, "stat")
		return []Outcome{{bad, TupleV{x.zeroVal(bad, res.At(0).Type()), x.freshErr(bad, "staterr")}}, {st, TupleV{IfaceV{Sym: info, Static: res.At(0).Type()}, nilErr()}}}
	}
	// Write on a file handle: positional write into the store
	prevWrite := ifaceMethods["Write"]
	ifaceMethods["Write"] = func(x *Exec, st *State, fr *Frame, cc *ssa.CallCommon, iv IfaceV, args []Val, instr ssa.Instruction) []Outcome {
		p, ok := st.ghost["fh:path:"+iv.Sym]
		if !ok || len(args) != 1 {
			return prevWrite(x, st, fr, cc, iv, args, instr)
		}
		path := p.(TV).E
		_, buf := x.seqOf(st, args[0], cc.Args[0].Type())
		x.traceAdd(st, evWrite, path, st.ghost["fh:flags:"+iv.Sym].(TV).E, buf)
		var outs []Outcome
		bad := st.fork()
		n := bad.fresh("wn", SInt)
		bad.assume(tAnd(tCmp("<=", "0", n), tCmp("<=", n, sLen(SSeqI, buf))))
		x.markFailed(bad, "write")
		outs = append(outs, Outcome{bad, TupleV{TV{SInt, n}, x.freshErr(bad, "werr")}})
		if x.faulty {
			// a short write that reports no error
			sh := st.fork()
			m := sh.fresh("wn", SInt)
			sh.assume(tAnd(tCmp("<=", "0", m), tCmp("<", m, sLen(SSeqI, buf))))
			x.markFailed(sh, "write")
			outs = append(outs, Outcome{sh, TupleV{TV{SInt, m}, nilErr()}})
		}
		store, _ := x.storeGet(st)
		old := app("select", store, path)
		flags := st.ghost["fh:flags:"+iv.Sym].(TV).E
		pos := st.ghost["fh:pos:"+iv.Sym].(TV).E
		// O_APPEND writes at the end, otherwise at the handle position, overwriting in place
		at := tIte(flagSet(flags, oAPPEND), sLen(SSeqI, old), pos)
		end := tAdd(at, sLen(SSeqI, buf))
		tail := tIte(tCmp("<", end, sLen(SSeqI, old)), sSl(SSeqI, old, end, sLen(SSeqI, old)), sEmpty(SSeqI))
		nc := st.fresh("content", SSeqI)
		st.assume(tEq(nc, sApp(SSeqI, sApp(SSeqI, sSl(SSeqI, old, "0", tMin(at, sLen(SSeqI, old))), buf), tail)))
		st.assume(app("g_isbytes", nc))
		st.ghost["store"] = TV{x.storeSort(), app("store", store, path, nc)}
		st.ghost["fh:pos:"+iv.Sym] = TV{SInt, end}
		outs = append(outs, Outcome{st, TupleV{TV{SInt, sLen(SSeqI, buf)}, nilErr()}})
		return outs
	}
	externDoc["interface method OpenFile"] = "afero.Fs.OpenFile(name, flags, perm): recorded on the I/O trace; fails, or returns a handle on the file name (created empty with O_CREATE when absent, emptied with O_TRUNC)"
	externDoc["interface method Open"] = "afero.Fs.Open(name): recorded on the trace; fails (always when the file is absent) or returns a read handle whose data is the stored content"
	externDoc["interface method Create"] = "afero.Fs.Create(name): recorded on the trace; fails or returns a handle on the emptied file"
	externDoc["interface method Close"] = "afero.File.Close: recorded on the trace; nil or an error"
	externDoc["interface method Stat"] = "afero.File.Stat: recorded on the trace; fails or returns a FileInfo whose Size() is the length of the stored content"
	externDoc["interface method Name"] = "afero.Fs.Name: some string"

	// spec functions over the trace and the store
	specFuncs["trace"] = func(e *specEnv, args []SV) SV {
		return SV{V: TV{e.x.traceSort(), e.x.traceGet(e.st)}}
	}
	specFuncs["file"] = func(e *specEnv, args []SV) SV {
		store, _ := e.x.storeGet(e.st)
		f := app("select", store, e.term(args[0]))
		if !strings.Contains(f, "q_") {
			e.facts = append(e.facts, app("g_isbytes", f)) // a file holds bytes
		}
		return SV{V: TV{SSeqI, f}, T: types.NewSlice(types.Typ[types.Uint8])}
	}
	// sameFilesExcept(p): every file other than p has the content and existence it had at entry
	specFuncs["sameFilesExcept"] = func(e *specEnv, args []SV) SV {
		if e.old == nil {
			return e.fail("sameFilesExcept without entry state")
		}
		store, ex := e.x.storeGet(e.st)
		ostore, oex := e.x.storeGet(e.old)
		e.x.freshN++
		q := fmt.Sprintf("q_p_%d", e.x.freshN)
		p := e.term(args[0])
		return SV{V: TV{SBool, fmt.Sprintf("(forall ((%s %s)) (=> (not (= %s %s)) (and (= (select %s %s) (select %s %s)) (= (select %s %s) (select %s %s)))))", q, SSeqI, q, p, store, q, ostore, q, ex, q, oex, q)}}
	}
	specFuncs["fileExists"] = func(e *specEnv, args []SV) SV {
		_, ex := e.x.storeGet(e.st)
		return SV{V: TV{SBool, app("select", ex, e.term(args[0]))}}
	}
	ev := func(kind int) func(e *specEnv, args []SV) SV {
		return func(e *specEnv, args []SV) SV {
			d := e.x.eventDT()
			path, flags, data := sEmpty(SSeqI), "0", sEmpty(SSeqI)
			if len(args) > 0 {
				path = e.term(args[0])
			}
			if len(args) > 1 {
				if kind == evWrite {
					flags = e.term(args[1])
					if len(args) > 2 {
						data = e.term(args[2])
					}
				} else {
					flags = e.term(args[1])
				}
			}
			return SV{V: TV{evSort, d.Make([]string{num(int64(kind)), path, flags, data})}}
		}
	}
	specFuncs["evOpenFile"] = ev(evOpenFile)
	specFuncs["evOpen"] = ev(evOpen)
	specFuncs["evCreate"] = ev(evCreate)
	specFuncs["evWrite"] = ev(evWrite) // evWrite(path, openflags, data)
	specFuncs["evClose"] = ev(evClose)
	specFuncs["evStat"] = ev(evStat)
	specFuncs["evProbe"] = ev(evProbe)
	specFuncs["evGetVar"] = ev(evGetVar) // evGetVar(name, attributes)
	// EFIVars.GetVar on a caller-supplied implementation: which variable is asked for is recorded on
	// the trace; what the Unmarshallable receives is up to the implementation
	ifaceMethods["GetVar"] = func(x *Exec, st *State, fr *Frame, cc *ssa.CallCommon, iv IfaceV, args []Val, instr ssa.Instruction) []Outcome {
		if iv.Sym == "" || len(args) != 2 {
			return nil
		}
		v := x.toTV(st, args[0], cc.Args[0].Type())
		d := x.w.DTByName(v.S)
		if d == nil || d.FieldIndex("Name") < 0 || d.FieldIndex("Attributes") < 0 {
			return nil
		}
		x.traceAdd(st, evGetVar, d.Get(d.FieldIndex("Name"), v.E), d.Get(d.FieldIndex("Attributes"), v.E), sEmpty(SSeqI))
		x.havocReachable(st, args[1])
		f := st.fork()
		return []Outcome{{f, x.freshErr(f, "getvar")}, {st, nilErr()}}
	}
	externDoc["interface method GetVar"] = "EFIVars.GetVar(v, out) of a caller-supplied store: recorded on the ghost trace as (v.Name, v.Attributes); whatever out can reach may change; may fail"
	// events(e1, e2, ...): a sequence of events
	specFuncs["events"] = func(e *specEnv, args []SV) SV {
		ts := e.x.traceSort()
		s := sEmpty(ts)
		for _, a := range args {
			s = sBuild(ts, s, e.term(a))
		}
		return SV{V: TV{ts, s}}
	}
	specFuncs["pathjoin"] = func(e *specEnv, args []SV) SV {
		e.x.w.Decl("(declare-fun g_pathjoin (" + SSeqI + " " + SSeqI + ") " + SSeqI + ")")
		return SV{V: TV{SSeqI, app("g_pathjoin", e.term(args[0]), e.term(args[1]))}, T: types.Typ[types.String]}
	}
	specFuncs["evCall"] = ev(9)
	specFuncs["hasflag"] = func(e *specEnv, args []SV) SV {
		if n, ok := isNum(e.term(args[1])); ok {
			return SV{V: TV{SBool, flagSet(e.term(args[0]), n.Int64())}}
		}
		return e.fail("hasflag needs a constant bit")
	}
}

// markFailed records that a caller-supplied dependency failed on this path (C15).
var failKinds = []string{"sign", "open", "stat", "read", "write", "close"}

func (x *Exec) markFailed(st *State, kind string) {
	st.ghost["failed:"+kind] = TV{SBool, "true"}
	st.ghost["failed:any"] = TV{SBool, "true"}
}

func init() {
	specFuncs["anyFailed"] = func(e *specEnv, args []SV) SV {
		if v, ok := e.st.ghost["failed:any"]; ok {
			return SV{V: v.(TV)}
		}
		return SV{V: TV{SBool, "false"}}
	}
	// failed("sign"|"open"|"stat"|"read"|"write"|"close")
	specFuncs["failed"] = func(e *specEnv, args []SV) SV {
		for _, lit := range e.x.w.strOrder {
			if e.x.w.strLits[lit] == e.term(args[0]) {
				if v, ok := e.st.ghost["failed:"+lit]; ok {
					return SV{V: v.(TV)}
				}
				return SV{V: TV{SBool, "false"}}
			}
		}
		return e.fail("failed() needs a string literal")
	}
}
