package main

import (
	"encoding/json"
	"fmt"
	"go/ast"
	"go/token"
	"os"
	"path/filepath"
	"sort"
	"strings"

	"golang.org/x/tools/go/ssa"
)

// Contracts name parameters and local variables of the functions they annotate. A change that only
// renames such a variable would make a clause unevaluable and the check would report an undecided
// obligation on code where the property still holds. To keep renames harmless, /verif/props/localnames.json
// records, for every function under contract on the pinned tree, its declared names in source order
// (`vfy names` regenerates it). When a clause mentions a name the function no longer declares, and the
// function still declares the same number of names, the name at the same position is used instead
// (noted in the evidence as a modelling note). Anything else stays an unevaluable clause.

func declaredNames(fn *ssa.Function) []string {
	syn := fn.Syntax()
	if syn == nil {
		return nil
	}
	var out []string
	seen := map[string]bool{}
	add := func(id *ast.Ident) {
		if id == nil || id.Name == "_" || seen[id.Name] {
			return
		}
		seen[id.Name] = true
		out = append(out, id.Name)
	}
	fields := func(fl *ast.FieldList) {
		if fl == nil {
			return
		}
		for _, f := range fl.List {
			for _, n := range f.Names {
				add(n)
			}
		}
	}
	var body *ast.BlockStmt
	switch d := syn.(type) {
	case *ast.FuncDecl:
		fields(d.Recv)
		fields(d.Type.Params)
		fields(d.Type.Results)
		body = d.Body
	case *ast.FuncLit:
		fields(d.Type.Params)
		fields(d.Type.Results)
		body = d.Body
	}
	if body == nil {
		return out
	}
	ast.Inspect(body, func(n ast.Node) bool {
		switch s := n.(type) {
		case *ast.FuncLit:
			return false // closures are functions of their own
		case *ast.AssignStmt:
			if s.Tok == token.DEFINE {
				for _, l := range s.Lhs {
					if id, ok := l.(*ast.Ident); ok {
						add(id)
					}
				}
			}
		case *ast.RangeStmt:
			if s.Tok == token.DEFINE {
				if id, ok := s.Key.(*ast.Ident); ok {
					add(id)
				}
				if id, ok := s.Value.(*ast.Ident); ok {
					add(id)
				}
			}
		case *ast.ValueSpec:
			for _, n := range s.Names {
				add(n)
			}
		}
		return true
	})
	return out
}

func cmdNames(l *Loaded, x *Exec) {
	snap := map[string][]string{}
	for name := range x.contracts {
		if fn, ok := l.funcs[name]; ok {
			snap[strings.TrimPrefix(name, modPath+"/")] = declaredNames(fn)
		}
	}
	keys := make([]string, 0, len(snap))
	for k := range snap {
		keys = append(keys, k)
	}
	sort.Strings(keys)
	var b strings.Builder
	b.WriteString("{\n")
	for i, k := range keys {
		v, _ := json.Marshal(snap[k])
		kk, _ := json.Marshal(k)
		fmt.Fprintf(&b, " %s: %s", kk, v)
		if i < len(keys)-1 {
			b.WriteString(",")
		}
		b.WriteString("\n")
	}
	b.WriteString("}\n")
	os.WriteFile(filepath.Join(verifRoot, "props", "localnames.json"), []byte(b.String()), 0o644)
	fmt.Printf("%d functions\n", len(keys))
}

// renamedTo: the present name of a variable that the pinned tree called `name` in fn, or "".
func (x *Exec) renamedTo(fn *ssa.Function, name string) string {
	if x.nameSnap == nil {
		x.nameSnap = map[string][]string{}
		if data, err := os.ReadFile(filepath.Join(verifRoot, "props", "localnames.json")); err == nil {
			json.Unmarshal(data, &x.nameSnap)
		}
	}
	key := strings.TrimPrefix(fnName(fn), modPath+"/")
	old := x.nameSnap[key]
	if len(old) == 0 {
		return ""
	}
	cur := declaredNames(fn)
	if len(cur) != len(old) {
		return ""
	}
	inOld := map[string]bool{}
	for _, n := range old {
		inOld[n] = true
	}
	for i, n := range old {
		if n == name && cur[i] != name && !inOld[cur[i]] {
			x.note(fmt.Sprintf("%s: the variable the contracts call %q is called %q now (resolved by its position among the declared names)", key, name, cur[i]))
			return cur[i]
		}
	}
	return ""
}
