package main

// Replay of solver counterexamples against the real code: the unit function is
// called with the inputs of the model in a generated in-package test that is
// injected with `go test -overlay` (nothing is written into the repository).

import (
	"context"
	"encoding/hex"
	"encoding/json"
	"fmt"
	"go/types"
	"os"
	"os/exec"
	"path/filepath"
	"regexp"
	"strconv"
	"strings"
	"time"

	"golang.org/x/tools/go/ssa"
)

type inputDesc struct {
	Name   string
	Kind   string // reader | bytes | string | int | buffer | recvnew | unsupported
	Term   string // SMT term (seq or int)
	GoType string
}

const replayBytes = 160

// describeInputs records how to rebuild the unit's arguments from a model.
func (x *Exec) describeInputs(st *State, fn *ssa.Function, fr *Frame) []inputDesc {
	var out []inputDesc
	qual := func(p *types.Package) string {
		if p == fn.Pkg.Pkg {
			return ""
		}
		return p.Name()
	}
	for i, p := range fn.Params {
		d := inputDesc{Name: p.Name(), GoType: types.TypeString(p.Type(), qual), Kind: "unsupported"}
		v := fr.vals[p]
		if i == 0 && fn.Signature.Recv() != nil {
			if pt, ok := p.Type().Underlying().(*types.Pointer); ok {
				d.Kind = "recvnew"
				d.GoType = types.TypeString(pt.Elem(), qual)
				// a *bytes.Buffer-like or struct receiver: zero value
				out = append(out, d)
				continue
			}
		}
		switch u := v.(type) {
		case IfaceV:
			if g, ok := st.ghost["rem:"+u.Sym]; ok {
				d.Kind, d.Term = "reader", g.(TV).E
			}
		case TV:
			switch {
			case u.S == SSeqI && isString(p.Type()):
				d.Kind, d.Term = "string", u.E
			case u.S == SSeqI:
				if sl, ok := p.Type().Underlying().(*types.Slice); ok && isByteElem(sl.Elem()) {
					d.Kind, d.Term = "bytes", u.E
				}
			case u.S == SInt:
				if _, ok := intRangeOf(p.Type()); ok {
					d.Kind, d.Term = "int", u.E
				}
			}
		case PtrV:
			if u.Ref != "" && ghostFor(u.Elem) == "bytes.Buffer" {
				dd := x.w.DTByName(u.RootSort)
				d.Kind, d.Term = "buffer", dd.Get(0, st.heapSelect(u.RootSort, u.Ref))
			}
		}
		out = append(out, d)
	}
	return out
}

func replayable(ins []inputDesc) bool {
	for _, d := range ins {
		if d.Kind == "unsupported" {
			return false
		}
	}
	return true
}

var valRe = regexp.MustCompile(`(\(- \d+\)|-?\d+)\s*\)\s*\)\s*$`)

// modelValues asks the QF solver for the values of the input terms.
func (x *Exec) modelValues(q *Query, ins []inputDesc) (map[string][]int64, bool) {
	var b strings.Builder
	sc := x.script(q, false, true, false)
	if amp := q.Meta["amplify"]; amp != "" {
		sc = strings.Replace(sc, "(check-sat)\n", "(assert "+amp+")\n(check-sat)\n", 1)
	}
	b.WriteString(sc)
	type ask struct {
		name string
		idx  int
	}
	var asks []ask
	for _, d := range ins {
		switch d.Kind {
		case "int":
			fmt.Fprintf(&b, "(get-value (%s))\n", d.Term)
			asks = append(asks, ask{d.Name, -2})
		case "reader", "bytes", "string", "buffer":
			fmt.Fprintf(&b, "(get-value (%s))\n", sLen(SSeqI, d.Term))
			asks = append(asks, ask{d.Name, -1})
			for i := 0; i < replayBytes; i++ {
				fmt.Fprintf(&b, "(get-value (%s))\n", sIdx(SSeqI, d.Term, num(int64(i))))
				asks = append(asks, ask{d.Name, i})
			}
		}
	}
	ctx, cancel := context.WithTimeout(context.Background(), 10*time.Second)
	defer cancel()
	cmd := exec.CommandContext(ctx, "z3-new", "-in", "-t:5000")
	cmd.Stdin = strings.NewReader(b.String())
	out, _ := cmd.Output()
	lines := strings.Split(strings.TrimSpace(string(out)), "\n")
	if len(lines) == 0 || strings.TrimSpace(lines[0]) != "sat" {
		return nil, false
	}
	vals := map[string][]int64{}
	// each get-value prints one s-expression; values may span lines: join and scan
	rest := strings.Join(lines[1:], " ")
	items := splitTopLevelSexprs(rest)
	if len(items) < len(asks) {
		return nil, false
	}
	for i, a := range asks {
		m := valRe.FindStringSubmatch(items[i])
		var v int64
		if m != nil {
			s := m[1]
			neg := false
			if strings.HasPrefix(s, "(- ") {
				neg = true
				s = strings.TrimSuffix(strings.TrimPrefix(s, "(- "), ")")
			}
			u, err := strconv.ParseUint(strings.TrimPrefix(s, "-"), 10, 64)
			if err == nil {
				v = int64(u)
			}
			if neg || strings.HasPrefix(s, "-") {
				v = -v
			}
		}
		switch a.idx {
		case -2:
			vals[a.name] = []int64{v}
		case -1:
			if v < 0 {
				v = 0
			}
			if v > replayBytes {
				v = replayBytes
			}
			vals[a.name] = make([]int64, 0, v)
			vals[a.name+"#len"] = []int64{v}
		default:
			if int64(a.idx) < vals[a.name+"#len"][0] {
				vals[a.name] = append(vals[a.name], ((v%256)+256)%256)
			}
		}
	}
	return vals, true
}

func splitTopLevelSexprs(s string) []string {
	var out []string
	depth := 0
	start := -1
	for i := 0; i < len(s); i++ {
		switch s[i] {
		case '(':
			if depth == 0 {
				start = i
			}
			depth++
		case ')':
			depth--
			if depth == 0 && start >= 0 {
				out = append(out, s[start:i+1])
				start = -1
			}
		}
	}
	return out
}

type replaySpec struct {
	Pkg    string            `json:"pkg"`
	Func   string            `json:"func"`
	Recv   string            `json:"recv,omitempty"`
	Inputs []replayInput     `json:"inputs"`
	Expect string            `json:"expect"` // panic | exit | alloc | hang
	Extra  map[string]string `json:"extra,omitempty"`
}

type replayInput struct {
	Name   string `json:"name"`
	Kind   string `json:"kind"`
	GoType string `json:"go_type"`
	Hex    string `json:"hex,omitempty"`
	Int    int64  `json:"int"`
}

func expectationOf(kind string) string {
	switch {
	case kind == "safe.unreachable":
		return "exit"
	case kind == "safe.alloc":
		return "alloc"
	case kind == "dec":
		return "hang"
	case strings.HasPrefix(kind, "safe."):
		return "panic"
	}
	return ""
}

// tryReplay attempts to reproduce a failed safety obligation.
func (x *Exec) tryReplay(id string, a *aggOb, fr *Result, content map[string]interface{}) bool {
	exp := expectationOf(a.kind)
	if exp == "" {
		content["replay_note"] = "functional obligation: no executable twin for this clause; the verifier's refusal is reported without a witness"
		return false
	}
	unit := fr.Q.Unit
	ins, ok := unitInputs[unit]
	if !ok || !replayable(ins) {
		content["replay_note"] = "unit inputs are not reconstructible from a model by the generic harness"
		return false
	}
	// try every failing path query that has a QF model
	for _, r := range a.results {
		if r.Answer == "unsat" || r.QFAnswer != "sat" {
			continue
		}
		vals, ok := x.modelValues(r.Q, ins)
		if !ok {
			continue
		}
		spec := buildReplaySpec(unit, ins, vals, exp)
		if spec == nil {
			continue
		}
		outcome, log := runReplay(spec)
		content["replay"] = spec
		content["observed"] = outcome
		content["replay_log"] = firstLines(log, 12)
		if outcome["reproduced"] == true {
			return true
		}
	}
	return false
}

var unitInputs = map[string][]inputDesc{}
var unitFuncs = map[string]*ssa.Function{}

func buildReplaySpec(unit string, ins []inputDesc, vals map[string][]int64, exp string) *replaySpec {
	fn := unitFuncs[unit]
	if fn == nil || fn.Parent() != nil || fn.Pkg == nil {
		return nil
	}
	if !fn.Object().Exported() && false {
		return nil
	}
	spec := &replaySpec{Pkg: fn.Pkg.Pkg.Path(), Func: fn.Name(), Expect: exp}
	for _, d := range ins {
		ri := replayInput{Name: d.Name, Kind: d.Kind, GoType: d.GoType}
		switch d.Kind {
		case "int":
			if v, ok := vals[d.Name]; ok && len(v) == 1 {
				ri.Int = v[0]
			}
		case "reader", "bytes", "string", "buffer":
			bs := make([]byte, len(vals[d.Name]))
			for i, v := range vals[d.Name] {
				bs[i] = byte(v)
			}
			ri.Hex = hex.EncodeToString(bs)
		case "recvnew":
			spec.Recv = d.GoType
		}
		spec.Inputs = append(spec.Inputs, ri)
	}
	return spec
}

// genReplayTest renders the in-package test source for a replay spec.
func genReplayTest(spec *replaySpec, pkgName string) string {
	var b strings.Builder
	fmt.Fprintf(&b, "package %s\n\nimport (\n\t\"bytes\"\n\t\"encoding/hex\"\n\t\"fmt\"\n\t\"os\"\n\t\"runtime\"\n\t\"testing\"\n)\n\n", pkgName)
	b.WriteString("var _ = bytes.NewReader\nvar _ = hex.DecodeString\n\n")
	b.WriteString("func TestVfyReplay(t *testing.T) {\n")
	var args []string
	total := 0
	for _, in := range spec.Inputs {
		switch in.Kind {
		case "reader":
			fmt.Fprintf(&b, "\t%s_b, _ := hex.DecodeString(%q)\n\t%s := bytes.NewReader(%s_b)\n", in.Name, in.Hex, in.Name, in.Name)
			args = append(args, in.Name)
			total += len(in.Hex) / 2
		case "buffer":
			fmt.Fprintf(&b, "\t%s_b, _ := hex.DecodeString(%q)\n\t%s := bytes.NewBuffer(%s_b)\n", in.Name, in.Hex, in.Name, in.Name)
			args = append(args, in.Name)
			total += len(in.Hex) / 2
		case "bytes":
			fmt.Fprintf(&b, "\t%s, _ := hex.DecodeString(%q)\n", in.Name, in.Hex)
			args = append(args, in.Name)
			total += len(in.Hex) / 2
		case "string":
			fmt.Fprintf(&b, "\t%s_b, _ := hex.DecodeString(%q)\n\t%s := string(%s_b)\n", in.Name, in.Hex, in.Name, in.Name)
			args = append(args, in.Name)
			total += len(in.Hex) / 2
		case "int":
			fmt.Fprintf(&b, "\tvar %s %s = %d\n", in.Name, in.GoType, in.Int)
			args = append(args, in.Name)
		case "recvnew":
			fmt.Fprintf(&b, "\t%s := new(%s)\n", in.Name, in.GoType)
		}
	}
	call := spec.Func + "(" + strings.Join(args, ", ") + ")"
	if spec.Recv != "" {
		call = spec.Inputs[0].Name + "." + call
	}
	fmt.Fprintf(&b, "\tinputLen := %d\n", total)
	b.WriteString("\tvar m0, m1 runtime.MemStats\n\truntime.ReadMemStats(&m0)\n")
	b.WriteString("\tfmt.Fprintf(os.Stderr, \"VFY-REPLAY start\\n\")\n")
	b.WriteString("\tfunc() {\n\t\tdefer func() {\n\t\t\tif r := recover(); r != nil {\n\t\t\t\tfmt.Fprintf(os.Stderr, \"VFY-REPLAY outcome=panic %v\\n\", r)\n\t\t\t}\n\t\t}()\n")
	fmt.Fprintf(&b, "\t\t%s\n", call)
	b.WriteString("\t}()\n")
	b.WriteString("\truntime.ReadMemStats(&m1)\n")
	b.WriteString("\tfmt.Fprintf(os.Stderr, \"VFY-REPLAY done alloc=%d inputlen=%d\\n\", m1.TotalAlloc-m0.TotalAlloc, inputLen)\n}\n")
	return b.String()
}

// runReplay executes a replay spec against the current repository tree.
func runReplay(spec *replaySpec) (map[string]interface{}, string) {
	res := map[string]interface{}{"reproduced": false}
	rel := strings.TrimPrefix(spec.Pkg, modPath)
	pkgDir := filepath.Join(repoRoot, rel)
	pkgName := filepath.Base(pkgDir)
	// the package name may differ from the directory: read it from any go file
	if ents, err := os.ReadDir(pkgDir); err == nil {
		for _, e := range ents {
			if strings.HasSuffix(e.Name(), ".go") && !strings.HasSuffix(e.Name(), "_test.go") {
				data, _ := os.ReadFile(filepath.Join(pkgDir, e.Name()))
				if m := regexp.MustCompile(`(?m)^package\s+(\w+)`).FindSubmatch(data); m != nil {
					pkgName = string(m[1])
					break
				}
			}
		}
	}
	tmp, err := os.MkdirTemp("", "vfyreplay")
	if err != nil {
		return res, err.Error()
	}
	defer os.RemoveAll(tmp)
	src := genReplayTest(spec, pkgName)
	testFile := filepath.Join(tmp, "zz_vfy_replay_test.go")
	os.WriteFile(testFile, []byte(src), 0o644)
	ov := map[string]map[string]string{"Replace": {filepath.Join(pkgDir, "zz_vfy_replay_test.go"): testFile}}
	ovData, _ := json.Marshal(ov)
	ovFile := filepath.Join(tmp, "overlay.json")
	os.WriteFile(ovFile, ovData, 0o644)
	ctx, cancel := context.WithTimeout(context.Background(), 120*time.Second)
	defer cancel()
	cmd := exec.CommandContext(ctx, "go", "test", "-overlay", ovFile, "-vet=off", "-v", "-count=1", "-timeout", "20s", "-run", "^TestVfyReplay$", ".")
	cmd.Dir = pkgDir
	cmd.Env = append(goEnv(), "GOMEMLIMIT=2GiB")
	out, _ := cmd.CombinedOutput()
	log := string(out)
	started := strings.Contains(log, "VFY-REPLAY start")
	panicked := strings.Contains(log, "VFY-REPLAY outcome=panic")
	done := strings.Contains(log, "VFY-REPLAY done")
	fatal := strings.Contains(log, "fatal error:")
	timedOut := strings.Contains(log, "test timed out") || strings.Contains(log, "panic: test timed out")
	res["started"] = started
	res["panicked"] = panicked
	res["returned"] = done
	var alloc, ilen int64
	if m := regexp.MustCompile(`VFY-REPLAY done alloc=(\d+) inputlen=(\d+)`).FindStringSubmatch(log); m != nil {
		alloc, _ = strconv.ParseInt(m[1], 10, 64)
		ilen, _ = strconv.ParseInt(m[2], 10, 64)
		res["alloc_bytes"] = alloc
		res["input_len"] = ilen
	}
	if !started {
		res["note"] = "replay test did not start (build failure?)"
		return res, log
	}
	switch spec.Expect {
	case "panic":
		res["reproduced"] = panicked || fatal
	case "exit":
		res["reproduced"] = !done && !panicked && !timedOut || fatal
		res["process_exited"] = !done && !panicked && !timedOut
	case "alloc":
		res["reproduced"] = fatal || (done && alloc > 4096+16*ilen+65536)
	case "hang":
		res["reproduced"] = timedOut
	}
	return res, log
}

func cmdReplay(args []string) int {
	if len(args) < 1 {
		fmt.Println("usage: vfy replay <file>")
		return 2
	}
	data, err := os.ReadFile(args[0])
	if err != nil {
		fmt.Println(err)
		return 2
	}
	var content struct {
		Property   string       `json:"property"`
		Obligation string       `json:"obligation"`
		Replay     *replaySpec  `json:"replay"`
		Bounded    *boundedSpec `json:"bounded"`
	}
	if err := json.Unmarshal(data, &content); err != nil {
		fmt.Println(err)
		return 2
	}
	if content.Bounded != nil {
		r := runBounded(*content.Bounded)
		fmt.Println(firstLines(r.Log, 30))
		if !r.Passed {
			fmt.Printf("VIOLATION property=%s replay=%s\n", content.Property, args[0])
			return 1
		}
		fmt.Println("not reproduced on the current tree")
		return 0
	}
	if content.Replay == nil {
		fmt.Printf("replay file %s has no concrete input (obligation %s): nothing to run\n", args[0], content.Obligation)
		fmt.Printf("VIOLATION property=%s replay=%s no-failing-input-found\n", content.Property, args[0])
		return 1
	}
	out, log := runReplay(content.Replay)
	fmt.Println(firstLines(log, 30))
	js, _ := json.Marshal(out)
	fmt.Println(string(js))
	if out["reproduced"] == true {
		fmt.Printf("VIOLATION property=%s replay=%s\n", content.Property, args[0])
		return 1
	}
	fmt.Println("not reproduced on the current tree")
	return 0
}
