package main

// Type-directed model of encoding/binary: fixed-size layouts.

import (
	"fmt"
	"go/types"
)

// wireSize: encoded size of a fixed-size type (ok=false: not encodable).
func wireSize(t types.Type) (int64, bool) {
	switch u := t.Underlying().(type) {
	case *types.Basic:
		switch u.Kind() {
		case types.Bool, types.Int8, types.Uint8:
			return 1, true
		case types.Int16, types.Uint16:
			return 2, true
		case types.Int32, types.Uint32, types.Float32:
			return 4, true
		case types.Int64, types.Uint64, types.Float64:
			return 8, true
		}
		return 0, false
	case *types.Array:
		n, ok := wireSize(u.Elem())
		return n * u.Len(), ok
	case *types.Struct:
		var s int64
		for i := 0; i < u.NumFields(); i++ {
			n, ok := wireSize(u.Field(i).Type())
			if !ok {
				return 0, false
			}
			s += n
		}
		return s, true
	}
	return 0, false
}

func (x *Exec) wireDecode(st *State, order string, t types.Type, chunk string) string {
	switch u := t.Underlying().(type) {
	case *types.Basic:
		r, _ := rangeOfBasic(u)
		switch u.Kind() {
		case types.Bool:
			return tNot(tEq(sIdx(SSeqI, chunk, "0"), "0"))
		case types.Uint8:
			return sIdx(SSeqI, chunk, "0")
		case types.Int8:
			return r.wrap1(sIdx(SSeqI, chunk, "0"))
		}
		n, _ := wireSize(t)
		v := app(fmt.Sprintf("g_%s%d", order, n*8), chunk)
		x.groundCodec(st, order, int(n), chunk, v)
		if r.signed {
			return r.wrap1(v)
		}
		return v
	case *types.Array:
		if isByteElem(u.Elem()) {
			return chunk
		}
		es, _ := wireSize(u.Elem())
		sort := x.w.SortOf(t)
		out := sEmpty(sort)
		if u.Len() > 64 {
			x.note("large non-byte array decode modelled as unknown")
			return st.fresh("arr", sort)
		}
		for i := int64(0); i < u.Len(); i++ {
			out = sBuild(sort, out, x.wireDecode(st, order, u.Elem(), sSl(SSeqI, chunk, num(i*es), num((i+1)*es))))
		}
		return out
	case *types.Struct:
		d := x.w.DTByName(x.w.SortOf(t))
		var fs []string
		off := int64(0)
		for i := 0; i < u.NumFields(); i++ {
			n, _ := wireSize(u.Field(i).Type())
			if u.Field(i).Name() == "_" {
				// encoding/binary skips blank fields when reading: they stay zero
				fs = append(fs, x.wireDecode(st, order, u.Field(i).Type(), app(SSeqI+"_rep", num(n), "0")))
			} else {
				fs = append(fs, x.wireDecode(st, order, u.Field(i).Type(), sSl(SSeqI, chunk, num(off), num(off+n))))
			}
			off += n
		}
		return d.Make(fs)
	}
	return st.fresh("dec", x.w.SortOf(t))
}

func (x *Exec) wireEncode(st *State, order string, t types.Type, v string) string {
	switch u := t.Underlying().(type) {
	case *types.Basic:
		r, _ := rangeOfBasic(u)
		switch u.Kind() {
		case types.Bool:
			return app("g_enc8", tIte(v, "1", "0"))
		case types.Uint8:
			return app("g_enc8", v)
		case types.Int8:
			return app("g_enc8", tIte(tCmp("<", v, "0"), tAdd(v, "256"), v))
		}
		n, _ := wireSize(t)
		if r.signed {
			v = tIte(tCmp("<", v, "0"), tAdd(v, numLit(pow2(r.bits))), v)
		}
		return app(fmt.Sprintf("g_enc_%s%d", order, n*8), v)
	case *types.Array:
		if isByteElem(u.Elem()) {
			return v
		}
		sort := x.w.SortOf(t)
		out := sEmpty(SSeqI)
		if u.Len() > 64 {
			return st.fresh("encarr", SSeqI)
		}
		for i := int64(0); i < u.Len(); i++ {
			out = sApp(SSeqI, out, x.wireEncode(st, order, u.Elem(), sIdx(sort, v, num(i))))
		}
		return out
	case *types.Struct:
		d := x.w.DTByName(x.w.SortOf(t))
		out := ""
		for i := 0; i < u.NumFields(); i++ {
			e := x.wireEncode(st, order, u.Field(i).Type(), d.Get(i, v))
			if u.Field(i).Name() == "_" {
				// ... and writes zeros for them
				n, _ := wireSize(u.Field(i).Type())
				e = app(SSeqI+"_rep", num(n), "0")
			}
			if out == "" {
				out = e
			} else {
				out = sApp(SSeqI, out, e)
			}
		}
		if out == "" {
			return sEmpty(SSeqI)
		}
		return out
	}
	return st.fresh("enc", SSeqI)
}

// groundCodec adds the ground instance of the byte-level definition of a
// fixed-width decode (a consequence of the codec axioms; it lets the
// quantifier-free pass prove arithmetic facts and produce faithful models).
func (x *Exec) groundCodec(st *State, order string, n int, chunk, v string) {
	args, ok := splitCtor(chunk, seqFn(SSeqI, "sl"))
	if !ok || len(args) != 3 {
		return
	}
	base, lo, hi := args[0], args[1], args[2]
	var terms []string
	var facts []string
	for k := 0; k < n; k++ {
		pos := k
		if order == "be" {
			pos = n - 1 - k
		}
		b := sIdx(SSeqI, base, tAdd(lo, num(int64(pos))))
		terms = append(terms, tMulC(numLit(pow2(uint(8*k))), b))
		facts = append(facts, tCmp("<=", "0", b), tCmp("<=", b, "255"))
	}
	sum := terms[0]
	if len(terms) > 1 {
		sum = app("+", terms...)
	}
	facts = append(facts, tEq(v, sum))
	guard := tAnd(app("g_isbytes", base), tCmp("<=", "0", lo), tCmp("<=", hi, app(seqFn(SSeqI, "len"), base)))
	st.assume(tImp(guard, tAnd(facts...)))
}
