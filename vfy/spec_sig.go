package main

// Spec library: encodings of the UEFI signature structures (UEFI 2.8 §32.4.1)
// as recursive spec functions over sequences (snoc unfolding).

import (
	"fmt"
	"go/types"
	"strings"
)

const sdSort = "T_signature_SignatureData"
const slSort = "T_signature_SignatureList"

func specPrelude(x *Exec, quant bool) []string {
	var out []string
	w := x.w
	if w.DTByName(sdSort) != nil {
		seqSD := w.SeqSort(sdSort)
		var b strings.Builder
		fmt.Fprintf(&b, "(declare-fun g_encSig (%s) %s)\n", sdSort, SSeqI)
		fmt.Fprintf(&b, "(declare-fun g_encSigs (%s) %s)\n", seqSD, SSeqI)
		if quant {
			d := w.DTByName(sdSort)
			g := w.DTByName("T_util_EFIGUID")
			// encSig(sd) = LE(owner) ++ data
			owner := d.Get(0, "sd")
			data := d.Get(1, "sd")
			encOwner := fmt.Sprintf("(g_SeqI_app (g_SeqI_app (g_SeqI_app (g_enc_le32 %s) (g_enc_le16 %s)) (g_enc_le16 %s)) %s)", g.Get(0, owner), g.Get(1, owner), g.Get(2, owner), g.Get(3, owner))
			fmt.Fprintf(&b, "(assert (forall ((sd %s)) (! (= (g_encSig sd) (g_SeqI_app %s %s)) :pattern ((g_encSig sd)))))\n", sdSort, encOwner, data)
			fmt.Fprintf(&b, "(assert (= (g_encSigs %s_empty) g_SeqI_empty))\n", seqSD)
			fmt.Fprintf(&b, "(assert (forall ((s %s) (v %s)) (! (= (g_encSigs (%s_build s v)) (g_SeqI_app (g_encSigs s) (g_encSig v))) :pattern ((g_encSigs (%s_build s v))))))\n", seqSD, sdSort, seqSD, seqSD)
			fmt.Fprintf(&b, "(assert (forall ((s %s) (t %s)) (! (=> (= (%s_len t) 1) (= (g_encSigs (%s_app s t)) (g_SeqI_app (g_encSigs s) (g_encSig (%s_idx t 0))))) :pattern ((g_encSigs (%s_app s t))))))\n", seqSD, seqSD, seqSD, seqSD, seqSD, seqSD)
		}
		out = append(out, b.String())
	}
	if w.DTByName(slSort) != nil && w.DTByName(sdSort) != nil {
		seqSL := w.SeqSort(slSort)
		var b strings.Builder
		fmt.Fprintf(&b, "(declare-fun g_encList (%s) %s)\n", slSort, SSeqI)
		fmt.Fprintf(&b, "(declare-fun g_encListHdr (%s) %s)\n", slSort, SSeqI)
		fmt.Fprintf(&b, "(declare-fun g_encLists (%s) %s)\n", seqSL, SSeqI)
		fmt.Fprintf(&b, "(declare-fun g_derefs_SL ((Array Int %s) %s) %s)\n", slSort, SSeqI, seqSL)
		if quant {
			d := w.DTByName(slSort)
			g := w.DTByName("T_util_EFIGUID")
			ty := d.Get(0, "l")
			encTy := fmt.Sprintf("(g_SeqI_app (g_SeqI_app (g_SeqI_app (g_enc_le32 %s) (g_enc_le16 %s)) (g_enc_le16 %s)) %s)", g.Get(0, ty), g.Get(1, ty), g.Get(2, ty), g.Get(3, ty))
			hdr := fmt.Sprintf("(g_SeqI_app (g_SeqI_app (g_SeqI_app (g_SeqI_app %s (g_enc_le32 %s)) (g_enc_le32 %s)) (g_enc_le32 %s)) %s)", encTy, d.Get(1, "l"), d.Get(2, "l"), d.Get(3, "l"), d.Get(4, "l"))
			fmt.Fprintf(&b, "(assert (forall ((l %s)) (! (= (g_encListHdr l) %s) :pattern ((g_encListHdr l)))))\n", slSort, hdr)
			fmt.Fprintf(&b, "(assert (forall ((l %s)) (! (= (g_encList l) (g_SeqI_app (g_encListHdr l) (g_encSigs %s))) :pattern ((g_encList l)))))\n", slSort, d.Get(5, "l"))
			fmt.Fprintf(&b, "(assert (= (g_encLists %s_empty) g_SeqI_empty))\n", seqSL)
			fmt.Fprintf(&b, "(assert (forall ((s %s) (v %s)) (! (= (g_encLists (%s_build s v)) (g_SeqI_app (g_encLists s) (g_encList v))) :pattern ((g_encLists (%s_build s v))))))\n", seqSL, slSort, seqSL, seqSL)
			// derefs: the list values behind a sequence of list pointers
			fmt.Fprintf(&b, "(assert (forall ((h (Array Int %s)) (s %s)) (! (= (%s_len (g_derefs_SL h s)) (g_SeqI_len s)) :pattern ((g_derefs_SL h s)))))\n", slSort, SSeqI, seqSL)
			fmt.Fprintf(&b, "(assert (forall ((h (Array Int %s)) (s %s) (i Int)) (! (=> (and (<= 0 i) (< i (g_SeqI_len s))) (= (%s_idx (g_derefs_SL h s) i) (select h (g_SeqI_idx s i)))) :pattern ((%s_idx (g_derefs_SL h s) i)))))\n", slSort, SSeqI, seqSL, seqSL)
			fmt.Fprintf(&b, "(assert (forall ((h (Array Int %s))) (! (= (g_derefs_SL h g_SeqI_empty) %s_empty) :pattern ((g_derefs_SL h g_SeqI_empty)))))\n", slSort, seqSL)
			fmt.Fprintf(&b, "(assert (forall ((h (Array Int %s)) (s %s) (r Int)) (! (= (g_derefs_SL h (g_SeqI_build s r)) (%s_build (g_derefs_SL h s) (select h r))) :pattern ((g_derefs_SL h (g_SeqI_build s r))))))\n", slSort, SSeqI, seqSL)
			fmt.Fprintf(&b, "(assert (forall ((h (Array Int %s)) (s %s) (t %s)) (! (=> (= (g_SeqI_len t) 1) (= (g_derefs_SL h (g_SeqI_app s t)) (%s_build (g_derefs_SL h s) (select h (g_SeqI_idx t 0))))) :pattern ((g_derefs_SL h (g_SeqI_app s t))))))\n", slSort, SSeqI, SSeqI, seqSL)
			// frame: a store at a reference that does not occur in s
			fmt.Fprintf(&b, "(assert (forall ((h (Array Int %s)) (s %s) (r Int) (v %s)) (! (=> (forall ((i Int)) (=> (and (<= 0 i) (< i (g_SeqI_len s))) (not (= (g_SeqI_idx s i) r)))) (= (g_derefs_SL (store h r v) s) (g_derefs_SL h s))) :pattern ((g_derefs_SL (store h r v) s)))))\n", slSort, SSeqI, slSort)
		}
		out = append(out, b.String())
	}
	return out
}

func init() {
	byteSlice := types.NewSlice(types.Typ[types.Uint8])
	specFuncs["enc"] = func(e *specEnv, args []SV) SV {
		v := args[0]
		if v.T == nil {
			return e.fail("enc() needs a typed value")
		}
		if _, ok := wireSize(v.T); !ok {
			return e.fail("enc() of a type without fixed-size encoding")
		}
		return SV{V: TV{SSeqI, e.x.wireEncode(e.st, "le", v.T, e.term(v))}, T: byteSlice}
	}
	specFuncs["encBE"] = func(e *specEnv, args []SV) SV {
		v := args[0]
		if v.T == nil {
			return e.fail("encBE() needs a typed value")
		}
		return SV{V: TV{SSeqI, e.x.wireEncode(e.st, "be", v.T, e.term(v))}, T: byteSlice}
	}
	specFuncs["le32"] = func(e *specEnv, args []SV) SV {
		return SV{V: TV{SSeqI, app("g_enc_le32", e.term(args[0]))}, T: byteSlice}
	}
	specFuncs["le16"] = func(e *specEnv, args []SV) SV {
		return SV{V: TV{SSeqI, app("g_enc_le16", e.term(args[0]))}, T: byteSlice}
	}
	for _, w := range []string{"16", "32", "64"} {
		w := w
		specFuncs["u"+w+"le"] = func(e *specEnv, args []SV) SV {
			return SV{V: TV{SInt, app("g_le"+w, e.term(args[0]))}}
		}
		specFuncs["u"+w+"be"] = func(e *specEnv, args []SV) SV {
			return SV{V: TV{SInt, app("g_be"+w, e.term(args[0]))}}
		}
	}
	specFuncs["decGUIDBE"] = func(e *specEnv, args []SV) SV {
		t := e.x.namedType(modPath+"/efi/util", "EFIGUID")
		if t == nil {
			return e.fail("EFIGUID type not loaded")
		}
		return SV{V: TV{e.x.w.SortOf(t), e.x.wireDecode(e.st, "be", t, e.term(args[0]))}, T: t}
	}
	specFuncs["decGUID"] = func(e *specEnv, args []SV) SV { // the EFI_GUID in its in-structure (little-endian) layout
		t := e.x.namedType(modPath+"/efi/util", "EFIGUID")
		if t == nil {
			return e.fail("EFIGUID type not loaded")
		}
		return SV{V: TV{e.x.w.SortOf(t), e.x.wireDecode(e.st, "le", t, e.term(args[0]))}, T: t}
	}
	// wfguid(g): the representation invariant of an EFIGUID value as an SMT fact - Data4 holds eight bytes.
	// (The Go type guarantees it; a value read out of a sequence or a heap cell carries no such fact
	// in the logic, so lemma functions over such values ask for it.)
	specFuncs["wfguid"] = func(e *specEnv, args []SV) SV {
		g := e.term(args[0])
		d := e.x.w.DTByName(e.sortOf(args[0]))
		if d == nil || d.FieldIndex("Data4") < 0 {
			return e.fail("wfguid needs an EFIGUID value")
		}
		d4 := d.Get(d.FieldIndex("Data4"), g)
		return SV{V: TV{SBool, tAnd(tEq(sLen(SSeqI, d4), "8"), app("g_isbytes", d4))}}
	}
	specFuncs["encSig"] = func(e *specEnv, args []SV) SV {
		return SV{V: TV{SSeqI, app("g_encSig", e.term(args[0]))}, T: byteSlice}
	}
	specFuncs["encSigs"] = func(e *specEnv, args []SV) SV {
		return SV{V: TV{SSeqI, app("g_encSigs", e.term(args[0]))}, T: byteSlice}
	}
	specFuncs["encList"] = func(e *specEnv, args []SV) SV {
		return SV{V: TV{SSeqI, app("g_encList", e.term(args[0]))}, T: byteSlice}
	}
	specFuncs["encListHdr"] = func(e *specEnv, args []SV) SV {
		return SV{V: TV{SSeqI, app("g_encListHdr", e.term(args[0]))}, T: byteSlice}
	}
	specFuncs["encLists"] = func(e *specEnv, args []SV) SV {
		return SV{V: TV{SSeqI, app("g_encLists", e.term(args[0]))}, T: byteSlice}
	}
	// lists(db): the list values behind a database ([]*SignatureList) in the current heap
	specFuncs["lists"] = func(e *specEnv, args []SV) SV {
		h := e.st.heap(slSort)
		return SV{V: TV{e.x.w.SeqSort(slSort), app("g_derefs_SL", h, e.term(args[0]))}}
	}
	// crypto and DER vocabulary of the contracts (all uninterpreted; see extern2.go / extern_der.go)
	specFuncs["hash"] = func(e *specEnv, args []SV) SV { // hash(alg, bytes), alg = crypto.Hash value (SHA256 = 5)
		return SV{V: TV{SSeqI, app("g_hash", e.term(args[0]), e.term(args[1]))}, T: types.NewSlice(types.Typ[types.Uint8])}
	}
	specFuncs["sigvalid"] = func(e *specEnv, args []SV) SV { // sigvalid(cert, algo, signed, sig)
		return SV{V: TV{SBool, app("g_sigvalid", app("g_pubkey", e.term(args[0])), e.term(args[1]), e.term(args[2]), e.term(args[3]))}}
	}
	specFuncs["derok"] = func(e *specEnv, args []SV) SV {
		return SV{V: TV{SBool, app("g_parse_ok", e.term(args[0]))}}
	}
	specFuncs["derbody"] = func(e *specEnv, args []SV) SV {
		return SV{V: TV{SSeqI, app("g_parse_body", e.term(args[0]))}, T: types.NewSlice(types.Typ[types.Uint8])}
	}
	specFuncs["dertag"] = func(e *specEnv, args []SV) SV {
		return SV{V: TV{SInt, app("g_parse_tag", e.term(args[0]))}}
	}
	specFuncs["derrest"] = func(e *specEnv, args []SV) SV {
		return SV{V: TV{SSeqI, app("g_parse_rest", e.term(args[0]))}, T: types.NewSlice(types.Typ[types.Uint8])}
	}
	specFuncs["der"] = func(e *specEnv, args []SV) SV { // der(tag, body): the DER element
		return SV{V: TV{SSeqI, app("g_der", e.term(args[0]), e.term(args[1]))}, T: types.NewSlice(types.Typ[types.Uint8])}
	}
	specFuncs["bigval"] = func(e *specEnv, args []SV) SV { // mathematical value of a *big.Int
		p, ok := args[0].V.(PtrV)
		if !ok || p.Ref == "" {
			return e.fail("bigval() needs a *big.Int")
		}
		d := e.x.w.DTByName(p.RootSort)
		if d == nil || d.FieldIndex("abs__") < 0 {
			return e.fail("bigval(): %s has no abstract value", p.RootSort)
		}
		return SV{V: TV{SInt, d.Get(d.FieldIndex("abs__"), e.st.heapSelect(p.RootSort, p.Ref))}}
	}
	specFuncs["pemok"] = func(e *specEnv, args []SV) SV {
		e.x.w.Decl("(declare-fun g_pemok (" + SSeqI + ") Bool)")
		return SV{V: TV{SBool, app("g_pemok", e.term(args[0]))}}
	}
	specFuncs["pemdecode"] = func(e *specEnv, args []SV) SV {
		e.x.w.Decl("(declare-fun g_pemdecode (" + SSeqI + ") " + SSeqI + ")")
		return SV{V: TV{SSeqI, app("g_pemdecode", e.term(args[0]))}, T: types.NewSlice(types.Typ[types.Uint8])}
	}
	specFuncs["unhex"] = func(e *specEnv, args []SV) SV { // what hex.DecodeString returns for a string (assumed function)
		e.x.w.Decl("(declare-fun g_unhex (" + SSeqI + ") " + SSeqI + ")")
		return SV{V: TV{SSeqI, app("g_unhex", e.term(args[0]))}, T: byteSlice}
	}
	specFuncs["replaceall"] = func(e *specEnv, args []SV) SV { // strings.ReplaceAll (assumed function)
		e.x.w.Decl("(declare-fun g_replaceall (" + SSeqI + " " + SSeqI + " " + SSeqI + ") " + SSeqI + ")")
		return SV{V: TV{SSeqI, app("g_replaceall", e.term(args[0]), e.term(args[1]), e.term(args[2]))}, T: byteSlice}
	}
	specFuncs["isbytes"] = func(e *specEnv, args []SV) SV {
		return SV{V: TV{SBool, app("g_isbytes", e.term(args[0]))}}
	}
}
