package main

// fmt.Sprintf with a constant format string: a format evaluator that turns the
// call into a concatenation of literals and formatting spec functions.

import (
	"go/constant"
	"go/types"
	"strconv"
	"strings"

	"golang.org/x/tools/go/ssa"
)

func fmtPrelude(quant bool) string {
	s := `
(declare-fun g_hexlo (Int Int) g_SeqI)
(declare-fun g_hexup (Int Int) g_SeqI)
(declare-fun g_hexbytes_lo (g_SeqI) g_SeqI)
(declare-fun g_hexbytes_up (g_SeqI) g_SeqI)
(declare-fun g_dec (Int) g_SeqI)
(declare-fun g_pow16 (Int) Int)
(assert (= (g_pow16 0) 1))
(assert (= (g_pow16 1) 16))
(assert (= (g_pow16 2) 256))
(assert (= (g_pow16 4) 65536))
(assert (= (g_pow16 8) 4294967296))
(assert (= (g_pow16 16) 18446744073709551616))
`
	if !quant {
		return s
	}
	s += `
(assert (forall ((v Int) (w Int)) (! (and (g_isbytes (g_hexlo v w)) (>= (g_SeqI_len (g_hexlo v w)) w) (>= (g_SeqI_len (g_hexlo v w)) 1)
   (=> (and (<= 0 v) (< v (g_pow16 w))) (= (g_SeqI_len (g_hexlo v w)) w))) :pattern ((g_hexlo v w)))))
(assert (forall ((v Int) (w Int)) (! (and (g_isbytes (g_hexup v w)) (>= (g_SeqI_len (g_hexup v w)) w) (>= (g_SeqI_len (g_hexup v w)) 1)
   (=> (and (<= 0 v) (< v (g_pow16 w))) (= (g_SeqI_len (g_hexup v w)) w))) :pattern ((g_hexup v w)))))
(assert (forall ((s g_SeqI)) (! (and (g_isbytes (g_hexbytes_lo s)) (= (g_SeqI_len (g_hexbytes_lo s)) (* 2 (g_SeqI_len s)))) :pattern ((g_hexbytes_lo s)))))
(assert (forall ((s g_SeqI)) (! (and (g_isbytes (g_hexbytes_up s)) (= (g_SeqI_len (g_hexbytes_up s)) (* 2 (g_SeqI_len s)))) :pattern ((g_hexbytes_up s)))))
(assert (forall ((v Int)) (! (and (g_isbytes (g_dec v)) (>= (g_SeqI_len (g_dec v)) 1)) :pattern ((g_dec v)))))
`
	return s
}

type fmtPiece struct {
	lit   string
	verb  byte
	zero  bool
	width int
	other bool // flags/precision not modelled
}

func parseFormat(f string) []fmtPiece {
	var out []fmtPiece
	var lit strings.Builder
	flush := func() {
		if lit.Len() > 0 {
			out = append(out, fmtPiece{lit: lit.String()})
			lit.Reset()
		}
	}
	for i := 0; i < len(f); i++ {
		if f[i] != '%' {
			lit.WriteByte(f[i])
			continue
		}
		i++
		if i >= len(f) {
			break
		}
		if f[i] == '%' {
			lit.WriteByte('%')
			continue
		}
		p := fmtPiece{}
		for i < len(f) && strings.IndexByte("+-# 0", f[i]) >= 0 {
			if f[i] == '0' {
				p.zero = true
			} else {
				p.other = true
			}
			i++
		}
		ws := i
		for i < len(f) && f[i] >= '0' && f[i] <= '9' {
			i++
		}
		if i > ws {
			p.width, _ = strconv.Atoi(f[ws:i])
		}
		if i < len(f) && f[i] == '.' {
			p.other = true
			i++
			for i < len(f) && f[i] >= '0' && f[i] <= '9' {
				i++
			}
		}
		if i >= len(f) {
			break
		}
		p.verb = f[i]
		flush()
		out = append(out, p)
	}
	flush()
	return out
}

// formatTerm evaluates fmt.Sprintf(format, args...) to a byte sequence term.
func (x *Exec) formatTerm(st *State, format string, args []Val) string {
	pieces := parseFormat(format)
	res := ""
	add := func(t string) {
		if res == "" {
			res = t
		} else {
			res = sApp(SSeqI, res, t)
		}
	}
	ai := 0
	for _, p := range pieces {
		if p.verb == 0 {
			add(x.w.StrLit(p.lit))
			continue
		}
		var arg Val
		if ai < len(args) {
			arg = args[ai]
		}
		ai++
		iv, _ := arg.(IfaceV)
		piece := ""
		if iv.Dyn != nil && !p.other {
			t := iv.Dyn
			switch p.verb {
			case 'x', 'X':
				fn := "g_hexlo"
				fb := "g_hexbytes_lo"
				if p.verb == 'X' {
					fn, fb = "g_hexup", "g_hexbytes_up"
				}
				if _, ok := intRangeOf(t); ok && (p.zero || p.width == 0) {
					piece = app(fn, x.toTV(st, iv.Payload, t).E, num(int64(p.width)))
				} else if isByteSeqType(t) {
					_, s := x.seqOf(st, iv.Payload, t)
					// exact when the digits fill the width
					if n, ok := isNum(x.lenOf(st, iv.Payload, t)); ok && int(n.Int64())*2 >= p.width {
						piece = app(fb, s)
					} else if p.width == 0 {
						piece = app(fb, s)
					}
				}
			case 'd':
				if _, ok := intRangeOf(t); ok && p.width == 0 {
					piece = app("g_dec", x.toTV(st, iv.Payload, t).E)
				}
			case 's':
				if (isString(t) || isByteSeqType(t)) && p.width == 0 {
					_, piece = x.seqOf(st, iv.Payload, t)
				}
			}
		}
		if piece == "" {
			piece = x.freshBytes(st, "fmt")
		}
		add(piece)
	}
	if res == "" {
		return sEmpty(SSeqI)
	}
	return res
}

func isByteSeqType(t types.Type) bool {
	switch u := t.Underlying().(type) {
	case *types.Slice:
		return isByteElem(u.Elem())
	case *types.Array:
		return isByteElem(u.Elem())
	}
	return false
}

func init() {
	ext("fmt.Sprintf", "fmt.Sprintf with a constant format: literals are copied; %x/%X of integers (zero flag) and byte slices, %d and %s of strings are the formatting spec functions hexlo/hexup/hexbytes/dec; every other verb yields an unspecified string",
		func(x *Exec, st *State, fr *Frame, cc *ssa.CallCommon, args []Val, instr ssa.Instruction) []Outcome {
			format := ""
			ok := false
			if c, isC := cc.Args[0].(*ssa.Const); isC && c.Value != nil && c.Value.Kind() == constant.String {
				format, ok = constant.StringVal(c.Value), true
			}
			if !ok {
				return one(st, TV{SSeqI, x.freshBytes(st, "sprintf")})
			}
			var vs []Val
			switch a := args[1].(type) {
			case SliceV:
				if arr, isArr := st.cells[a.Cell].(ArrV); isArr {
					vs = arr.Elems
				}
			}
			r := x.formatTerm(st, format, vs)
			st.assume(app("g_isbytes", r))
			return one(st, TV{SSeqI, r})
		})
	specFuncs["hexlo"] = func(e *specEnv, args []SV) SV {
		return SV{V: TV{SSeqI, app("g_hexlo", e.term(args[0]), e.term(args[1]))}, T: types.Typ[types.String]}
	}
	specFuncs["hexup"] = func(e *specEnv, args []SV) SV {
		return SV{V: TV{SSeqI, app("g_hexup", e.term(args[0]), e.term(args[1]))}, T: types.Typ[types.String]}
	}
	specFuncs["hexbytes"] = func(e *specEnv, args []SV) SV {
		return SV{V: TV{SSeqI, app("g_hexbytes_lo", e.term(args[0]))}, T: types.Typ[types.String]}
	}
	specFuncs["dec"] = func(e *specEnv, args []SV) SV {
		return SV{V: TV{SSeqI, app("g_dec", e.term(args[0]))}, T: types.Typ[types.String]}
	}
}
