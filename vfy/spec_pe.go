package main

// Spec vocabulary and assumed contracts for PE/COFF images (property C01):
// what debug/pe reports about an image, the ordering slices.SortFunc establishes,
// and the concatenation functions the Authenticode hash input is written with.

import (
	"fmt"
	"go/types"
	"strings"

	"golang.org/x/tools/go/ssa"
)

const offSrcSort = "T_authenticode_offsetAndSource"

func pePrelude(x *Exec, quant bool) string {
	var b strings.Builder
	b.WriteString("(declare-fun g_pe64 (" + SSeqI + ") Bool)\n")
	for _, f := range []string{"g_pesoh", "g_pecertva", "g_pecertsize"} {
		b.WriteString("(declare-fun " + f + " (" + SSeqI + ") Int)\n")
	}
	b.WriteString("(declare-fun g_secoff (Int) Int)\n(declare-fun g_secsize (Int) Int)\n")
	b.WriteString("(declare-fun g_seccat (" + SSeqI + ") " + SSeqI + ")\n")
	b.WriteString("(declare-fun g_secsum (" + SSeqI + ") Int)\n")
	b.WriteString("(declare-fun g_catviews (" + SSeqI + ") " + SSeqI + ")\n")
	if d := x.w.DTByName(offSrcSort); d != nil {
		fmt.Fprintf(&b, "(declare-fun g_partviews (%s) %s)\n", x.w.SeqSort(offSrcSort), SSeqI)
	}
	if !quant {
		return b.String()
	}
	S := SSeqI
	p := func(f string, a ...interface{}) { fmt.Fprintf(&b, f+"\n", a...) }
	p("(assert (forall ((r Int)) (! (and (<= 0 (g_secsize r)) (<= (g_secsize r) 4294967295)) :pattern ((g_secsize r)))))")
	p("(assert (forall ((r Int)) (! (and (<= 0 (g_secoff r)) (<= (g_secoff r) 4294967295)) :pattern ((g_secoff r)))))")
	// seccat: the raw data of the sections of a table, in table order, sections without raw data left out
	p("(assert (= (g_seccat %s_empty) %s_empty))", S, S)
	p("(assert (forall ((s %s) (r Int)) (! (= (g_seccat (%s_build s r)) (%s_app (g_seccat s) (ite (= (g_secsize r) 0) %s_empty (g_view r)))) :pattern ((g_seccat (%s_build s r))))))", S, S, S, S, S)
	p("(assert (forall ((s %s)) (! (g_isbytes (g_seccat s)) :pattern ((g_seccat s)))))", S)
	// secsum: the sum of the SizeOfRawData fields
	p("(assert (= (g_secsum %s_empty) 0))", S)
	p("(assert (forall ((s %s) (r Int)) (! (= (g_secsum (%s_build s r)) (+ (g_secsum s) (g_secsize r))) :pattern ((g_secsum (%s_build s r))))))", S, S, S)
	p("(assert (forall ((s %s)) (! (and (<= 0 (g_secsum s)) (<= (g_secsum s) (* 4294967295 (%s_len s)))) :pattern ((g_secsum s)))))", S, S)
	// catviews: concatenation of the contents of a list of positional readers
	p("(assert (= (g_catviews %s_empty) %s_empty))", S, S)
	p("(assert (forall ((s %s) (r Int)) (! (= (g_catviews (%s_build s r)) (%s_app (g_catviews s) (g_view r))) :pattern ((g_catviews (%s_build s r))))))", S, S, S, S)
	p("(assert (forall ((s %s)) (! (g_isbytes (g_catviews s)) :pattern ((g_catviews s)))))", S)
	if d := x.w.DTByName(offSrcSort); d != nil {
		PS := x.w.SeqSort(offSrcSort)
		src := d.FieldIndex("SizeReaderAt")
		if src >= 0 {
			p("(assert (= (g_partviews %s_empty) %s_empty))", PS, S)
			p("(assert (forall ((s %s) (v %s)) (! (= (g_partviews (%s_build s v)) (%s_app (g_partviews s) (g_view %s))) :pattern ((g_partviews (%s_build s v))))))", PS, offSrcSort, PS, S, d.Get(src, "v"), PS)
			p("(assert (forall ((s %s)) (! (g_isbytes (g_partviews s)) :pattern ((g_partviews s)))))", PS)
		}
	}
	return b.String()
}

// cmpKeyPath recognises a comparator of the form
//
//	func(a, b *T) int { return cmp.Compare(a.f.g, b.f.g) }
//
// and returns the Go field path f.g (nil if the closure has another shape).
func cmpKeyPath(fn *ssa.Function) ([]int, bool) {
	if fn == nil || len(fn.Params) != 2 || len(fn.Blocks) != 1 {
		return nil, false
	}
	var ret *ssa.Return
	for _, in := range fn.Blocks[0].Instrs {
		if r, ok := in.(*ssa.Return); ok {
			ret = r
		}
	}
	if ret == nil || len(ret.Results) != 1 {
		return nil, false
	}
	call, ok := ret.Results[0].(*ssa.Call)
	if !ok || call.Common().StaticCallee() == nil || len(call.Common().Args) != 2 {
		return nil, false
	}
	callee := call.Common().StaticCallee()
	name := callee.String()
	if callee.Origin() != nil {
		name = callee.Origin().String()
	}
	if name != "cmp.Compare" {
		return nil, false
	}
	pathOf := func(v ssa.Value, root *ssa.Parameter) ([]int, bool) {
		ld, ok := v.(*ssa.UnOp)
		if !ok || ld.Op.String() != "*" {
			return nil, false
		}
		var path []int
		cur := ld.X
		for {
			fa, ok := cur.(*ssa.FieldAddr)
			if !ok {
				break
			}
			path = append([]int{fa.Field}, path...)
			cur = fa.X
		}
		if cur != ssa.Value(root) || len(path) == 0 {
			return nil, false
		}
		return path, true
	}
	pa, ok1 := pathOf(call.Common().Args[0], fn.Params[0])
	pb, ok2 := pathOf(call.Common().Args[1], fn.Params[1])
	if !ok1 || !ok2 || len(pa) != len(pb) {
		return nil, false
	}
	for i := range pa {
		if pa[i] != pb[i] {
			return nil, false
		}
	}
	return pa, true
}

// fieldTerm follows a Go field path through the datatype of a struct value.
func (x *Exec) fieldTerm(t types.Type, val string, path []int) (string, types.Type, bool) {
	for _, gi := range path {
		st, ok := t.Underlying().(*types.Struct)
		if !ok {
			return "", nil, false
		}
		d := x.w.DTByName(x.w.SortOf(t))
		if d == nil {
			return "", nil, false
		}
		k := d.GoField(gi)
		if k < 0 || gi >= st.NumFields() {
			return "", nil, false
		}
		val = d.Get(k, val)
		t = st.Field(gi).Type()
	}
	return val, t, true
}

func goFieldIndex(t types.Type, name string) int {
	st, ok := t.Underlying().(*types.Struct)
	if !ok {
		return -1
	}
	for i := 0; i < st.NumFields(); i++ {
		if st.Field(i).Name() == name {
			return i
		}
	}
	return -1
}

// peTies states what debug/pe reports about the image F = view(r): assumed, not verified.
func (x *Exec) peTies(st *State, fileT types.Type, fref, F string) {
	secT := x.namedType("debug/pe", "Section")
	if secT == nil {
		return
	}
	fd := x.w.DTByName(x.w.SortOf(fileT))
	si := fd.FieldIndex("Sections")
	if si < 0 {
		return
	}
	fobj := st.heapSelect(fd.Name, fref)
	secs := fd.Get(si, fobj)
	st.ghost["pesections"] = TV{SSeqI, secs}
	st.ghost["pefile"] = TV{SSeqI, F}
	secSort := x.w.SortOf(secT)
	H := st.heap(secSort)
	x.freshN++
	q := fmt.Sprintf("q_i_%d", x.freshN)
	r := sIdx(SSeqI, secs, q)
	obj := app("select", H, r)
	hi := goFieldIndex(secT, "SectionHeader")
	if hi < 0 {
		return
	}
	hdrT := secT.Underlying().(*types.Struct).Field(hi).Type()
	offT, _, ok1 := x.fieldTerm(secT, obj, []int{hi, goFieldIndex(hdrT, "Offset")})
	sizeT, _, ok2 := x.fieldTerm(secT, obj, []int{hi, goFieldIndex(hdrT, "Size")})
	if !ok1 || !ok2 {
		return
	}
	L := sLen(SSeqI, F)
	off, size := app("g_secoff", r), app("g_secsize", r)
	lo := tMin(off, L)
	hiT := tMin(tAdd(off, size), L)
	// a section with PointerToRawData == 0 is not backed by the file (debug/pe gives it a reader that fails)
	st.assume(fmt.Sprintf("(forall ((%s Int)) (! (=> (and (<= 0 %s) (< %s %s)) (and (= %s %s) (= %s %s) (=> (not (= %s 0)) (= (g_view %s) %s)))) :pattern (%s)))",
		q, q, q, sLen(SSeqI, secs), offT, off, sizeT, size, off, r, sSl(SSeqI, F, lo, hiT), r))
	// optional header
	oi := fd.FieldIndex("OptionalHeader")
	if oi < 0 {
		return
	}
	oh := fd.Get(oi, fobj)
	dynDecl(x)
	for _, c := range []struct {
		name string
		is64 bool
	}{{"OptionalHeader32", false}, {"OptionalHeader64", true}} {
		t := x.namedType("debug/pe", c.name)
		if t == nil {
			continue
		}
		tag := num(x.typeTag(types.NewPointer(t)))
		is := tEq(app("g_dyn", oh), tag)
		if c.is64 {
			st.assume(tEq(is, app("g_pe64", F)))
		}
		o := st.heapSelect(x.w.SortOf(t), oh)
		soh, _, okS := x.fieldTerm(t, o, []int{goFieldIndex(t, "SizeOfHeaders")})
		ddI := goFieldIndex(t, "DataDirectory")
		if !okS || ddI < 0 {
			continue
		}
		dds, ddT, okD := x.fieldTerm(t, o, []int{ddI})
		at, okA := ddT.Underlying().(*types.Array)
		if !okD || !okA {
			continue
		}
		e4 := sIdx(x.w.SortOf(ddT), dds, "4")
		va, _, okV := x.fieldTerm(at.Elem(), e4, []int{goFieldIndex(at.Elem(), "VirtualAddress")})
		sz, _, okZ := x.fieldTerm(at.Elem(), e4, []int{goFieldIndex(at.Elem(), "Size")})
		if !okV || !okZ {
			continue
		}
		st.assume(tImp(is, tAnd(tEq(soh, app("g_pesoh", F)), tEq(va, app("g_pecertva", F)), tEq(sz, app("g_pecertsize", F)))))
	}
	st.assume(tAnd(tCmp("<=", "0", app("g_pesoh", F)), tCmp("<=", app("g_pesoh", F), "4294967295"),
		tCmp("<=", "0", app("g_pecertva", F)), tCmp("<=", app("g_pecertva", F), "4294967295"),
		tCmp("<=", "0", app("g_pecertsize", F)), tCmp("<=", app("g_pecertsize", F), "4294967295")))
}

func init() {
	ext("cmp.Compare", "cmp.Compare(a, b) on integers: -1, 0 or +1 as a is less than, equal to or greater than b",
		func(x *Exec, st *State, fr *Frame, cc *ssa.CallCommon, args []Val, instr ssa.Instruction) []Outcome {
			t := cc.Args[0].Type()
			if _, ok := intRangeOf(t); !ok {
				return one(st, x.symResult(st, cc))
			}
			a := x.toTV(st, args[0], t).E
			b := x.toTV(st, args[1], t).E
			return one(st, TV{SInt, tIte(tCmp("<", a, b), "(- 1)", tIte(tCmp("<", b, a), "1", "0"))})
		})

	byteSlice := types.NewSlice(types.Typ[types.Uint8])
	unary := func(name, fn, sort string, bytes bool) {
		specFuncs[name] = func(e *specEnv, args []SV) SV {
			viewDecl(e.x)
			sv := SV{V: TV{sort, app(fn, e.term(args[0]))}}
			if bytes {
				sv.T = byteSlice
			}
			return sv
		}
	}
	unary("pe64", "g_pe64", SBool, false)
	unary("peSoh", "g_pesoh", SInt, false)
	unary("peCertVA", "g_pecertva", SInt, false)
	unary("peCertSize", "g_pecertsize", SInt, false)
	unary("secoff", "g_secoff", SInt, false)
	unary("secsize", "g_secsize", SInt, false)
	unary("seccat", "g_seccat", SSeqI, true)
	unary("secsum", "g_secsum", SInt, false)
	unary("catviews", "g_catviews", SSeqI, true)
	specFuncs["partviews"] = func(e *specEnv, args []SV) SV {
		return SV{V: TV{SSeqI, app("g_partviews", e.term(args[0]))}, T: byteSlice}
	}
	specFuncs["zeros"] = func(e *specEnv, args []SV) SV {
		return SV{V: TV{SSeqI, app(seqFn(SSeqI, "rep"), e.term(args[0]), "0")}, T: byteSlice}
	}
	ghostSeq := func(name, key string) {
		specFuncs[name] = func(e *specEnv, args []SV) SV {
			if g, ok := e.st.ghost[key]; ok {
				return SV{V: g}
			}
			c := "g_no_" + key
			e.x.w.Decl("(declare-fun " + c + " () " + SSeqI + ")") // total: unspecified when the event did not happen
			return SV{V: TV{SSeqI, c}}
		}
	}
	ghostSeq("pesections", "pesections") // the section table debug/pe returned, in header order
	ghostSeq("lastsorted", "lastsorted") // what the last slices.SortFunc left behind
	ghostSeq("sortinput", "sortinput")   // what it was given
}
