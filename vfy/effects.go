package main

// Static write-effect analysis used when a loop is cut (and to summarise
// callees that are inlined): which heap sorts may be written, and through
// which references.

import (
	"go/ast"
	"go/types"

	"golang.org/x/tools/go/ssa"
)

type fx struct {
	full    map[string]bool        // written through references the analysis cannot name
	targets map[string][]ssa.Value // written only through these values (defined outside the analysed region)
	fresh   map[string]bool        // written through objects allocated inside the analysed region
	params  map[int]bool           // summaries: the function writes through its i-th parameter (pointer or stream)
	binds   map[int]bool           // summaries: ... through its i-th free variable
	unknown bool
	ghost   bool
	deps    bool // may call a caller-supplied dependency (signer, filesystem, reader): relevant for fault mode

	fn         *ssa.Function
	region     map[*ssa.BasicBlock]bool // nil: whole function
	freshParam map[*ssa.Parameter]bool
}

func newFx(fn *ssa.Function) *fx {
	return &fx{full: map[string]bool{}, targets: map[string][]ssa.Value{}, fresh: map[string]bool{}, params: map[int]bool{}, binds: map[int]bool{}, fn: fn}
}

// extWrites: which arguments an assumed library contract writes through
// (everything else is read-only for the heap; ghost stream state aside).
var extWrites = map[string][]int{
	"encoding/binary.Read":       {0, 2},
	"encoding/binary.Write":      {0},
	"(*bytes.Buffer).Write":      {0},
	"(*bytes.Buffer).Truncate":   {0},
	"(*bytes.Buffer).Next":       {0},
	"(*bytes.Buffer).Read":       {0, 1},
	"(*bytes.Buffer).ReadByte":   {0},
	"(*bytes.Buffer).ReadFrom":   {0, 1},
	"(*bytes.Reader).Read":       {0, 1},
	"(*bytes.Reader).ReadAt":     {1},
	"(*io.SectionReader).ReadAt": {1},
	"(*io.SectionReader).Read":   {0, 1},
	"io.Copy":                    {0, 1},
	"io.CopyN":                   {0, 1},
	"io.ReadAll":                 {0},
	"io.MultiReader":             {0},
	"encoding/pem.Encode":        {0},
	"(*golang.org/x/text/transform.Writer).Write": {0},
}

// streamArgs: which arguments of a stream helper are readers/writers
var streamArgs = map[string][]int{
	"encoding/binary.Read":     {0},
	"encoding/binary.Write":    {0},
	"io.Copy":                  {0, 1},
	"io.CopyN":                 {0, 1},
	"io.ReadAll":               {0},
	"(*bytes.Buffer).ReadFrom": {1},
	"io.NewSectionReader":      {0},
	"debug/pe.NewFile":         {0},
}

var streamSorts = []string{"T_bytes_Buffer", "T_bytes_Reader", "T_io_SectionReader"}

// baseOf walks address computations up to their root value.
func baseOf(v ssa.Value) ssa.Value {
	for {
		switch a := v.(type) {
		case *ssa.FieldAddr:
			v = a.X
		case *ssa.IndexAddr:
			v = a.X
		case *ssa.ChangeType:
			v = a.X
		case *ssa.MakeInterface:
			v = a.X
		case *ssa.ChangeInterface:
			v = a.X
		case *ssa.Slice:
			v = a.X
		default:
			return v
		}
	}
}

func (f *fx) inRegion(in ssa.Instruction) bool {
	if in.Block() == nil || in.Parent() != f.fn {
		return false
	}
	return f.region == nil || f.region[in.Block()]
}

func (f *fx) addTarget(sort string, v ssa.Value) {
	for _, o := range f.targets[sort] {
		if o == v {
			return
		}
	}
	f.targets[sort] = append(f.targets[sort], v)
}

func (x *Exec) paramIndex(fn *ssa.Function, p *ssa.Parameter) int {
	for i, q := range fn.Params {
		if q == p {
			return i
		}
	}
	return -1
}

func (x *Exec) classifyWrite(f *fx, addr ssa.Value) {
	base := baseOf(addr)
	if _, isIface := base.Type().Underlying().(*types.Interface); isIface {
		f.ghost = true
		switch b := base.(type) {
		case *ssa.Parameter:
			if b.Parent() == f.fn {
				f.params[x.paramIndex(f.fn, b)] = true
				return
			}
		case *ssa.UnOp:
			// *captured: a stream variable captured by reference
			if fv, ok := b.X.(*ssa.FreeVar); ok && fv.Parent() == f.fn {
				for i, q := range f.fn.FreeVars {
					if q == fv {
						f.binds[i] = true
					}
				}
				return
			}
		}
		// some other interface value: its dynamic value may be any stream object
		for _, g := range streamSorts {
			if x.w.DTByName(g) != nil {
				f.full[g] = true
			}
		}
		return
	}
	pt, ok := base.Type().Underlying().(*types.Pointer)
	if !ok {
		return
	}
	if !isStructLike(pt.Elem()) {
		// Go-side cell: handled dynamically, but summaries must report it
		switch b := base.(type) {
		case *ssa.Parameter:
			if b.Parent() == f.fn {
				f.params[x.paramIndex(f.fn, b)] = true
			}
		case *ssa.FreeVar:
			for i, q := range f.fn.FreeVars {
				if q == b {
					f.binds[i] = true
				}
			}
		}
		return
	}
	sort := x.w.SortOf(pt.Elem())
	isCtor := func(c *ssa.Call) bool {
		if callee := c.Call.StaticCallee(); callee != nil {
			switch callee.String() {
			case "bytes.NewBuffer", "bytes.NewReader", "io.NewSectionReader", "golang.org/x/crypto/cryptobyte.NewBuilder":
				return true
			}
		}
		return false
	}
	switch b := base.(type) {
	case *ssa.Alloc:
		if f.inRegion(b) {
			f.fresh[sort] = true
		} else {
			f.addTarget(sort, b)
		}
	case *ssa.Parameter:
		if f.freshParam != nil && f.freshParam[b] {
			f.fresh[sort] = true
			return
		}
		if b.Parent() == f.fn {
			f.params[x.paramIndex(f.fn, b)] = true
		}
		f.addTarget(sort, b)
	case *ssa.FreeVar:
		for i, q := range f.fn.FreeVars {
			if q == b {
				f.binds[i] = true
			}
		}
		f.addTarget(sort, b)
	default:
		if in, ok := base.(ssa.Instruction); ok {
			if c, isCall := base.(*ssa.Call); isCall && isCtor(c) && f.inRegion(in) {
				f.fresh[sort] = true
				return
			}
			if !f.inRegion(in) && in.Parent() == f.fn {
				f.addTarget(sort, base)
				return
			}
		}
		f.full[sort] = true
	}
}

func (x *Exec) instrEffects(f *fx, in ssa.Instruction, visiting map[*ssa.Function]bool) {
	switch i := in.(type) {
	case *ssa.Store:
		x.classifyWrite(f, i.Addr)
	case *ssa.Call:
		x.callFx(f, i.Common(), visiting)
	case *ssa.Defer:
		x.callFx(f, i.Common(), visiting)
	case *ssa.MapUpdate, *ssa.Go, *ssa.Send:
		f.unknown = true
	}
}

// applySummary maps a callee summary onto the call site.
func (x *Exec) applySummary(f *fx, sub *fx, args []ssa.Value, binds []ssa.Value) {
	for s := range sub.full {
		f.full[s] = true
	}
	for s := range sub.fresh {
		f.fresh[s] = true
	}
	f.unknown = f.unknown || sub.unknown
	f.ghost = f.ghost || sub.ghost
	f.deps = f.deps || sub.deps
	for i := range sub.params {
		if i >= 0 && i < len(args) {
			x.classifyWrite(f, args[i])
		} else {
			f.unknown = true
		}
	}
	for i := range sub.binds {
		if i < len(binds) {
			x.classifyWrite(f, binds[i])
		} else if len(binds) == 0 {
			// free variables of an enclosing function seen from a nested closure summary
			f.unknown = true
		}
	}
}

func (x *Exec) callFx(f *fx, cc *ssa.CallCommon, visiting map[*ssa.Function]bool) {
	if _, ok := cc.Value.(*ssa.Builtin); ok {
		return
	}
	if cc.IsInvoke() {
		switch cc.Method.Name() {
		case "Size", "Sum", "NewDecoder", "NewEncoder", "Len", "Name":
			if _, ok := ifaceMethods[cc.Method.Name()]; ok {
				return // pure in the assumed contract
			}
		case "ReadAt":
			f.ghost = true
			f.deps = true
			if len(cc.Args) > 0 {
				x.classifyWrite(f, cc.Args[0])
			}
			return
		}
		if _, ok := ifaceMethods[cc.Method.Name()]; ok {
			f.ghost = true
			f.deps = true
			x.classifyWrite(f, cc.Value)
			for _, a := range cc.Args {
				if _, isSl := a.Type().Underlying().(*types.Slice); !isSl {
					x.classifyWrite(f, a)
				}
			}
			return
		}
		f.unknown = true
		f.deps = true
		return
	}
	callee := cc.StaticCallee()
	var binds []ssa.Value
	if callee == nil {
		if mc, ok := cc.Value.(*ssa.MakeClosure); ok {
			callee = mc.Fn.(*ssa.Function)
			binds = mc.Bindings
		} else {
			f.unknown = true
			return
		}
	}
	name := callee.String()
	if callee.Origin() != nil {
		name = callee.Origin().String()
	}
	if _, ok := cpsExterns[name]; ok {
		f.ghost = true
		if name != "sort.Search" && len(cc.Args) > 0 {
			x.classifyWrite(f, cc.Args[0])
		}
		for _, a := range cc.Args {
			if mc, ok := a.(*ssa.MakeClosure); ok {
				cf := mc.Fn.(*ssa.Function)
				sub := newFx(cf)
				if name != "sort.Search" && len(cf.Params) > 0 {
					// the continuation's builder argument is a fresh child builder
					sub.freshParam = map[*ssa.Parameter]bool{cf.Params[0]: true}
				}
				x.fnEffectsInto(sub, cf, visiting)
				x.applySummary(f, sub, nil, mc.Bindings)
			}
		}
		return
	}
	if _, ok := externs[name]; ok {
		f.ghost = true
		// stream helpers reach a caller-supplied dependency when handed one
		for _, i := range streamArgs[name] {
			if i >= len(cc.Args) {
				continue
			}
			a := cc.Args[i]
			if mi, ok := a.(*ssa.MakeInterface); ok {
				if pt, ok := mi.X.Type().Underlying().(*types.Pointer); ok {
					g := ghostFor(pt.Elem())
					if g == "bytes.Buffer" || g == "bytes.Reader" {
						continue
					}
				}
			}
			if pt, ok := a.Type().Underlying().(*types.Pointer); ok {
				g := ghostFor(pt.Elem())
				if g == "bytes.Buffer" || g == "bytes.Reader" {
					continue
				}
			}
			f.deps = true
		}
		if name == "(*io.SectionReader).Read" || name == "(*io.SectionReader).ReadAt" {
			f.deps = true
		}
		for _, i := range extWrites[name] {
			if i < len(cc.Args) {
				if name == "encoding/binary.Read" && i == 2 {
					if _, isMI := cc.Args[i].(*ssa.MakeInterface); !isMI {
						// data taken from a literal []interface{}{&a.f, &b.g}: the
						// pointers address objects of this function
						x.allocTargets(f)
						continue
					}
				}
				x.classifyWrite(f, cc.Args[i])
			}
		}
		if len(name) > 40 && name[:40] == "(*golang.org/x/crypto/cryptobyte.Builder" && len(cc.Args) > 0 {
			x.classifyWrite(f, cc.Args[0])
		}
		if len(name) > 39 && name[:39] == "(*golang.org/x/crypto/cryptobyte.String" {
			for _, a := range cc.Args {
				if _, isPtr := a.Type().Underlying().(*types.Pointer); isPtr {
					x.classifyWrite(f, a)
				}
			}
		}
		return
	}
	if !repoFunc(callee) {
		f.unknown = true
		f.deps = true
		return
	}
	if c := x.contracts[fnName(callee)]; c != nil && !c.Inline {
		if !c.Pure {
			f.ghost = true
		}
		for _, m := range c.Modifies {
			for _, ex := range m.Exprs {
				x.modFx(f, callee, cc, binds, ex)
			}
		}
		return
	}
	x.applySummary(f, x.fnEffects(callee, visiting), cc.Args, binds)
}

// modFx: effect of one modifies target of a callee contract at a call site.
func (x *Exec) modFx(f *fx, callee *ssa.Function, cc *ssa.CallCommon, binds []ssa.Value, ex ast.Expr) {
	argOf := func(name string) (ssa.Value, bool) {
		for i, p := range callee.Params {
			if p.Name() == name && i < len(cc.Args) {
				return cc.Args[i], true
			}
		}
		for i, fv := range callee.FreeVars {
			if fv.Name() == name && i < len(binds) {
				return binds[i], true
			}
		}
		return nil, false
	}
	rootIdent := func(e ast.Expr) (string, bool) {
		for {
			switch n := e.(type) {
			case *ast.Ident:
				return n.Name, true
			case *ast.SelectorExpr:
				e = n.X
			case *ast.ParenExpr:
				e = n.X
			case *ast.StarExpr:
				e = n.X
			case *ast.IndexExpr:
				e = n.X
			default:
				return "", false
			}
		}
	}
	switch n := ex.(type) {
	case *ast.StarExpr:
		if id, ok := n.X.(*ast.Ident); ok {
			if a, ok := argOf(id.Name); ok {
				x.classifyWrite(f, a)
				return
			}
		}
		// *p.field: an object reachable from a parameter: any object of that sort
		if name, ok := rootIdent(n.X); ok {
			if _, ok := argOf(name); ok {
				x.fullBySelector(f, callee, n.X)
				return
			}
		}
		f.unknown = true
	case *ast.CallExpr:
		if id, ok := n.Fun.(*ast.Ident); ok {
			switch id.Name {
			case "trace", "files":
				f.ghost = true
				return
			case "rem", "out":
				f.ghost = true
				if aid, ok := n.Args[0].(*ast.Ident); ok {
					if a, ok := argOf(aid.Name); ok {
						x.classifyWrite(f, a)
						return
					}
				}
				for _, g := range streamSorts {
					if x.w.DTByName(g) != nil {
						f.full[g] = true
					}
				}
				return
			case "heap":
				if tid, ok := n.Args[0].(*ast.Ident); ok {
					if s := x.sortByTypeName(callee, tid.Name); s != "" {
						f.full[s] = true
						return
					}
				}
			}
		}
		f.unknown = true
	case *ast.Ident:
		if a, ok := argOf(n.Name); ok {
			x.classifyWrite(f, a)
			return
		}
		f.unknown = true
	default:
		f.unknown = true
	}
}

// fullBySelector: `*p.f.g` in a modifies clause: the sort of the selected pointer.
func (x *Exec) fullBySelector(f *fx, callee *ssa.Function, e ast.Expr) {
	// resolve the static type by walking the selector over the parameter's type
	var walk func(e ast.Expr) types.Type
	walk = func(e ast.Expr) types.Type {
		switch n := e.(type) {
		case *ast.Ident:
			for _, p := range callee.Params {
				if p.Name() == n.Name {
					return p.Type()
				}
			}
		case *ast.SelectorExpr:
			t := walk(n.X)
			if t == nil {
				return nil
			}
			if pt, ok := t.Underlying().(*types.Pointer); ok {
				t = pt.Elem()
			}
			if st, ok := t.Underlying().(*types.Struct); ok {
				for i := 0; i < st.NumFields(); i++ {
					if st.Field(i).Name() == n.Sel.Name {
						return st.Field(i).Type()
					}
				}
			}
		}
		return nil
	}
	t := walk(e)
	if t != nil {
		if pt, ok := t.Underlying().(*types.Pointer); ok && isStructLike(pt.Elem()) {
			f.full[x.w.SortOf(pt.Elem())] = true
			return
		}
	}
	f.unknown = true
}

var fxCache = map[*ssa.Function]*fx{}

// fnEffects: context-free summary of a function.
func (x *Exec) fnEffects(fn *ssa.Function, visiting map[*ssa.Function]bool) *fx {
	if r, ok := fxCache[fn]; ok {
		return r
	}
	f := newFx(fn)
	x.fnEffectsInto(f, fn, visiting)
	// targets of a summary are its own parameters/free variables (already in
	// params/binds) or objects it allocated: nothing else to report
	for s, ts := range f.targets {
		for _, t := range ts {
			switch t.(type) {
			case *ssa.Parameter, *ssa.FreeVar:
			default:
				f.fresh[s] = true
			}
		}
	}
	f.targets = map[string][]ssa.Value{}
	if !visiting[fn] {
		fxCache[fn] = f
	}
	return f
}

func (x *Exec) fnEffectsInto(f *fx, fn *ssa.Function, visiting map[*ssa.Function]bool) {
	if visiting[fn] || fn.Blocks == nil {
		f.unknown = true
		return
	}
	visiting[fn] = true
	for _, b := range fn.Blocks {
		for _, in := range b.Instrs {
			x.instrEffects(f, in, visiting)
		}
	}
	delete(visiting, fn)
}

func (x *Exec) loopEffects(fn *ssa.Function, lp *Loop) *fx {
	f := newFx(fn)
	f.region = lp.body
	for b := range lp.body {
		for _, in := range b.Instrs {
			x.instrEffects(f, in, map[*ssa.Function]bool{})
		}
	}
	return f
}

// allocTargets: every struct object allocated in (or passed by pointer to) the
// analysed function may be written.
func (x *Exec) allocTargets(f *fx) {
	for _, b := range f.fn.Blocks {
		for _, in := range b.Instrs {
			if a, ok := in.(*ssa.Alloc); ok {
				x.classifyWrite(f, a)
			}
		}
	}
	for _, p := range f.fn.Params {
		if _, ok := p.Type().Underlying().(*types.Pointer); ok {
			x.classifyWrite(f, p)
		}
	}
}
