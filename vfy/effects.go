package main

// Static write-effect analysis used when a loop is cut: which heap sorts may
// be written through pre-existing ("old") references, which only through
// objects allocated during the analysed code ("fresh").

import (
	"go/ast"
	"go/types"

	"golang.org/x/tools/go/ssa"
)

type fx struct {
	old     map[string]bool
	fresh   map[string]bool
	unknown bool
	ghost   bool
}

func newFx() *fx { return &fx{old: map[string]bool{}, fresh: map[string]bool{}} }

func (f *fx) merge(o *fx) {
	for k := range o.old {
		f.old[k] = true
	}
	for k := range o.fresh {
		f.fresh[k] = true
	}
	f.unknown = f.unknown || o.unknown
	f.ghost = f.ghost || o.ghost
}

// baseOf walks address computations up to their root value.
func baseOf(v ssa.Value) ssa.Value {
	for {
		switch a := v.(type) {
		case *ssa.FieldAddr:
			v = a.X
		case *ssa.IndexAddr:
			v = a.X
		case *ssa.ChangeType:
			v = a.X
		case *ssa.MakeInterface:
			v = a.X
		case *ssa.ChangeInterface:
			v = a.X
		case *ssa.Slice:
			v = a.X
		default:
			return v
		}
	}
}

func (x *Exec) classifyWrite(f *fx, addr ssa.Value) {
	base := baseOf(addr)
	pt, ok := base.Type().Underlying().(*types.Pointer)
	if !ok {
		if _, isIface := base.Type().Underlying().(*types.Interface); isIface {
			f.ghost = true
		}
		return
	}
	if !isStructLike(pt.Elem()) {
		return // Go-side cell: handled dynamically
	}
	sort := x.w.SortOf(pt.Elem())
	switch b := base.(type) {
	case *ssa.Alloc:
		f.fresh[sort] = true
	case *ssa.Call:
		// constructors of fresh objects
		if callee := b.Call.StaticCallee(); callee != nil {
			switch callee.String() {
			case "bytes.NewBuffer", "bytes.NewReader", "io.NewSectionReader":
				f.fresh[sort] = true
				return
			}
		}
		f.old[sort] = true
	default:
		f.old[sort] = true
	}
}

func (x *Exec) instrEffects(f *fx, in ssa.Instruction, visiting map[*ssa.Function]bool) {
	switch i := in.(type) {
	case *ssa.Store:
		x.classifyWrite(f, i.Addr)
	case *ssa.Call:
		x.callFx(f, i.Common(), visiting)
	case *ssa.Defer:
		x.callFx(f, i.Common(), visiting)
	case *ssa.MapUpdate, *ssa.Go, *ssa.Send:
		f.unknown = true
	}
}

func (x *Exec) callFx(f *fx, cc *ssa.CallCommon, visiting map[*ssa.Function]bool) {
	if _, ok := cc.Value.(*ssa.Builtin); ok {
		return
	}
	if cc.IsInvoke() {
		// interface method: contract handlers write only ghost state of the receiver
		if _, ok := ifaceMethods[cc.Method.Name()]; ok {
			f.ghost = true
			for _, a := range cc.Args {
				x.classifyWrite(f, a)
			}
			return
		}
		f.unknown = true
		return
	}
	callee := cc.StaticCallee()
	if callee == nil {
		if mc, ok := cc.Value.(*ssa.MakeClosure); ok {
			callee = mc.Fn.(*ssa.Function)
		} else {
			f.unknown = true
			return
		}
	}
	name := callee.String()
	if callee.Origin() != nil {
		name = callee.Origin().String()
	}
	if _, ok := externs[name]; ok {
		f.ghost = true
		for _, a := range cc.Args {
			x.classifyWrite(f, a)
		}
		return
	}
	if !repoFunc(callee) {
		f.unknown = true
		return
	}
	if c := x.contracts[fnName(callee)]; c != nil && !c.Inline {
		if !c.Pure {
			f.ghost = true
		}
		for _, m := range c.Modifies {
			for _, ex := range m.Exprs {
				x.modFx(f, callee, ex)
			}
		}
		return
	}
	f.merge(x.fnEffects(callee, visiting))
}

// modFx: effect of one modifies target, by static type.
func (x *Exec) modFx(f *fx, callee *ssa.Function, ex ast.Expr) {
	switch n := ex.(type) {
	case *ast.StarExpr:
		if id, ok := n.X.(*ast.Ident); ok {
			for _, p := range append(append([]*ssa.Parameter{}, callee.Params...)) {
				if p.Name() == id.Name {
					if pt, ok := p.Type().Underlying().(*types.Pointer); ok && isStructLike(pt.Elem()) {
						f.old[x.w.SortOf(pt.Elem())] = true
					}
					return
				}
			}
		}
		f.unknown = true
	case *ast.CallExpr:
		if id, ok := n.Fun.(*ast.Ident); ok {
			switch id.Name {
			case "rem", "out":
				f.ghost = true
				// the actual may be a *bytes.Buffer: its heap is written
				f.old["T_bytes_Buffer"] = true
				f.old["T_bytes_Reader"] = true
				return
			case "heap":
				if tid, ok := n.Args[0].(*ast.Ident); ok {
					if s := x.sortByTypeName(callee, tid.Name); s != "" {
						f.old[s] = true
						return
					}
				}
			}
		}
		f.unknown = true
	case *ast.Ident:
		// captured variable: a cell or a struct
		for _, fv := range callee.FreeVars {
			if fv.Name() == n.Name {
				if pt, ok := fv.Type().Underlying().(*types.Pointer); ok && isStructLike(pt.Elem()) {
					f.old[x.w.SortOf(pt.Elem())] = true
				}
				return
			}
		}
		f.unknown = true
	default:
		f.unknown = true
	}
}

var fxCache = map[*ssa.Function]*fx{}

func (x *Exec) fnEffects(fn *ssa.Function, visiting map[*ssa.Function]bool) *fx {
	if r, ok := fxCache[fn]; ok {
		return r
	}
	f := newFx()
	if visiting[fn] || fn.Blocks == nil {
		f.unknown = true
		return f
	}
	visiting[fn] = true
	for _, b := range fn.Blocks {
		for _, in := range b.Instrs {
			x.instrEffects(f, in, visiting)
		}
	}
	delete(visiting, fn)
	fxCache[fn] = f
	return f
}

func (x *Exec) loopEffects(lp *Loop) *fx {
	f := newFx()
	for b := range lp.body {
		for _, in := range b.Instrs {
			x.instrEffects(f, in, map[*ssa.Function]bool{})
		}
	}
	return f
}
