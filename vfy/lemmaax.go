package main

// Proved lemma functions as axioms.
//
// A lemma function (a function in a zz_verif_lemmas.go file) whose contract carries a `trigger`
// clause is verified like any other unit (an inductive one through its recursive call).  Its
// contract `requires ==> ensures`, universally quantified over its parameters, is then given to
// every OTHER unit as an axiom that E-matching instantiates on the trigger terms.  Lemma function
// units themselves never receive lemma axioms (they use each other through calls), which rules
// out circular reasoning.  Whether the lemma holds is decided by the lemma unit's own obligations,
// which belong to the scope of the property that uses the axiom.

import (
	"fmt"
	"go/types"
	"sort"
	"strings"

	"golang.org/x/tools/go/ssa"
)

func isLemmaUnit(name string) bool {
	i := strings.LastIndex(name, ".")
	return i >= 0 && (strings.HasPrefix(name[i+1:], "verifLemma") || strings.HasPrefix(name[i+1:], "VerifLemma"))
}

// lemmaAxiomText builds (once) the axioms of all lemma functions that have a trigger clause.
func (x *Exec) lemmaAxiomText() string {
	if x.lemmaAxDone {
		return x.lemmaAx
	}
	x.lemmaAxDone = true
	var names []string
	for n, c := range x.contracts {
		if c.Trigger != nil && isLemmaUnit(n) {
			names = append(names, n)
		}
	}
	sort.Strings(names)
	var b strings.Builder
	for _, n := range names {
		fn := x.funcByName(n)
		if fn == nil {
			continue
		}
		if ax, ok := x.lemmaAxiomOf(fn, x.contracts[n]); ok {
			b.WriteString(ax)
			b.WriteString("\n")
		} else {
			x.note("lemma axiom not generated for " + n)
		}
	}
	x.lemmaAx = b.String()
	return x.lemmaAx
}

func (x *Exec) funcByName(name string) *ssa.Function {
	for _, p := range x.prog.AllPackages() {
		for _, m := range p.Members {
			if f, ok := m.(*ssa.Function); ok && fnName(f) == name {
				return f
			}
		}
	}
	return nil
}

func (x *Exec) lemmaAxiomOf(fn *ssa.Function, c *Contract) (string, bool) {
	st := &State{x: x, cells: map[*Cell]Val{}, frozen: map[*Cell]bool{}, heaps: map[string]string{}, ghost: map[string]Val{}, visits: map[*ssa.BasicBlock]int{}}
	st.top = "g_lemma_top"
	fr := &Frame{fn: fn, vals: map[ssa.Value]Val{}, params: map[string]Val{}, cutLoops: map[int]*loopCut{}, contract: c}
	fr.entry = st
	var binder []string
	short := fn.Name()
	for _, p := range fn.Params {
		bv := fmt.Sprintf("lv_%s_%s", short, p.Name())
		sortName := x.w.SortOf(p.Type())
		var v Val = TV{sortName, bv}
		switch p.Type().Underlying().(type) {
		case *types.Pointer, *types.Interface, *types.Signature, *types.Map:
			return "", false // heap-dependent lemma parameters are not supported
		}
		fr.vals[p] = v
		fr.params[p.Name()] = v
		binder = append(binder, fmt.Sprintf("(%s %s)", bv, sortName))
	}
	n0 := x.freshN
	x.freshN = 800000 + 1000*len(x.lemmaAx)
	defer func() { x.freshN = n0 }()
	eval := func(cl *Clause) (string, bool) {
		e := x.newEnv(st, fr, nil)
		v := e.eval(cl.Expr)
		if e.err != nil {
			return "", false
		}
		tv, ok := v.V.(TV)
		if !ok || tv.S != SBool {
			return "", false
		}
		return tv.E, true
	}
	var pre, post []string
	for _, cl := range c.Requires {
		t, ok := eval(cl)
		if !ok {
			return "", false
		}
		pre = append(pre, t)
	}
	for _, cl := range c.Ensures {
		if cl.Kind == "lemma" || cl.Kind == "apply" {
			continue
		}
		t, ok := eval(cl)
		if !ok {
			return "", false
		}
		post = append(post, t)
	}
	var trig []string
	for _, ex := range c.Trigger.Exprs {
		e := x.newEnv(st, fr, nil)
		v := e.eval(ex)
		if e.err != nil {
			return "", false
		}
		trig = append(trig, e.term(v))
	}
	body := tAnd(post...)
	if len(pre) > 0 {
		body = tImp(tAnd(pre...), body)
	}
	if strings.Contains(body, "g_H_") || len(trig) == 0 || len(binder) == 0 {
		return "", false
	}
	return fmt.Sprintf("(assert (forall (%s) (! %s :pattern (%s))))", strings.Join(binder, " "), body, strings.Join(trig, " ")), true
}

// lemmaAxiomNames lists the lemma functions whose contracts were available as axioms in this run
// (each is proved by its own obligations in the scope of the property that relies on it).
func (x *Exec) lemmaAxiomNames() []string {
	var names []string
	for n, c := range x.contracts {
		if c.Trigger != nil && isLemmaUnit(n) {
			names = append(names, strings.TrimPrefix(n, modPath+"/")+" (requires ==> ensures as an axiom for non-lemma units; proved as a unit of C01)")
		}
	}
	sort.Strings(names)
	return names
}
