package main

// Table-driven assumed contracts for library functions whose only modelled
// behaviour is "total, does not panic, result shaped as stated".

import (
	"go/types"

	"golang.org/x/tools/go/ssa"
)

type simpleOpt int

const (
	optNonNil   simpleOpt = iota // pointer/interface results are non-nil
	optErrOrVal                  // (v, err): either err != nil (v zero) or err == nil (v non-nil)
	optHavoc                     // may write through pointer arguments
)

func simple(name, doc string, opts ...simpleOpt) {
	has := func(o simpleOpt) bool {
		for _, p := range opts {
			if p == o {
				return true
			}
		}
		return false
	}
	ext(name, doc, func(x *Exec, st *State, fr *Frame, cc *ssa.CallCommon, args []Val, instr ssa.Instruction) []Outcome {
		if has(optHavoc) {
			x.havocForUnknown(st, args)
		}
		sig := cc.Signature()
		res := sig.Results()
		mk := func(st *State, failing bool) Val {
			var vals []Val
			for i := 0; i < res.Len(); i++ {
				t := res.At(i).Type()
				if isErrorType(t) {
					if has(optErrOrVal) {
						if failing {
							vals = append(vals, x.freshErr(st, "exterr"))
						} else {
							vals = append(vals, nilErr())
						}
					} else {
						vals = append(vals, x.freshOrNilErr(st))
					}
					continue
				}
				if failing {
					vals = append(vals, x.zeroVal(st, t))
					continue
				}
				v := x.symVal(st, "ext", t)
				if has(optNonNil) || has(optErrOrVal) {
					switch pv := v.(type) {
					case PtrV:
						if pv.Ref != "" {
							st.assume(tNot(tEq(pv.Ref, "0")))
							// a library-allocated object: fresh
						}
					case IfaceV:
						if pv.Sym != "" {
							st.assume(tNot(tEq(pv.Sym, "0")))
						}
					}
				}
				vals = append(vals, v)
			}
			switch len(vals) {
			case 0:
				return nil
			case 1:
				return vals[0]
			}
			return TupleV(vals)
		}
		if has(optErrOrVal) {
			f := st.fork()
			return []Outcome{{f, mk(f, true)}, {st, mk(st, false)}}
		}
		return one(st, mk(st, false))
	})
}

func init() {
	simple("strings.ReplaceAll", "strings.ReplaceAll: total; result is some string (its content is not modelled)")
	simple("encoding/hex.DecodeString", "hex.DecodeString: total; returns bytes no longer than the input, or an error")
	simple("fmt.Sprintf", "fmt.Sprintf: total; result is some string (format evaluation is modelled separately where a property needs it)")
	simple("path.Join", "path.Join: total; result is some string")
	simple("bytes.Trim", "bytes.Trim: total; result is a sub-slice of the input")
	simple("os.IsNotExist", "os.IsNotExist: total predicate")
	simple("os.ReadFile", "os.ReadFile: returns the file content or an error; never panics", optErrOrVal)
	simple("os.OpenFile", "os.OpenFile: a non-nil file or an error", optErrOrVal)
	simple("os.WriteFile", "os.WriteFile: nil or an error")
	simple("(*os.File).Fd", "File.Fd: total")
	simple("(*os.File).Close", "File.Close: nil or an error")
	simple("crypto/x509.ParseCertificate", "x509.ParseCertificate: a non-nil certificate or an error; never panics; allocation linear in the input (assumed)", optErrOrVal)
	simple("crypto/x509.ParseCertificates", "x509.ParseCertificates: certificates or an error; never panics; allocation linear in the input (assumed)", optErrOrVal)
	simple("crypto/x509.ParsePKCS8PrivateKey", "x509.ParsePKCS8PrivateKey: a key or an error; never panics", optErrOrVal)
	simple("crypto/x509.MarshalPKCS8PrivateKey", "x509.MarshalPKCS8PrivateKey: bytes or an error", optErrOrVal)
	simple("crypto/rand.Int", "rand.Int: a non-nil integer or an error", optErrOrVal)
	simple("math/big.NewInt", "big.NewInt: non-nil", optNonNil)
	simple("(*math/big.Int).Lsh", "big.Int.Lsh: returns its (non-nil) receiver", optNonNil)
	simple("(*math/big.Int).Cmp", "big.Int.Cmp: -1, 0 or +1; total for non-nil operands")
	simple("github.com/spf13/afero.NewMemMapFs", "afero.NewMemMapFs: a non-nil in-memory filesystem", optNonNil)
	simple("github.com/spf13/afero.NewOsFs", "afero.NewOsFs: a non-nil filesystem", optNonNil)
	simple("golang.org/x/text/encoding/unicode.UTF16", "unicode.UTF16: a non-nil encoding", optNonNil)
	simple("golang.org/x/text/transform.NewReader", "transform.NewReader: a non-nil reader (its output is not modelled: any byte string)", optNonNil)
	simple("golang.org/x/text/transform.NewWriter", "transform.NewWriter: a non-nil writer", optNonNil)
	simple("(*golang.org/x/text/transform.Writer).Write", "transform.Writer.Write: total; writes some bytes to the underlying writer", optHavoc)
	simple("golang.org/x/sys/unix.IoctlGetInt", "ioctl wrapper: value or error")
	simple("golang.org/x/sys/unix.IoctlSetPointerInt", "ioctl wrapper: nil or error")
	simple("encoding/pem.Encode", "pem.Encode: writes to the writer; nil or the writer's error", optHavoc)
	simple("(encoding/asn1.ObjectIdentifier).Equal", "ObjectIdentifier.Equal: total predicate")
	simple("(golang.org/x/crypto/cryptobyte/asn1.Tag).ContextSpecific", "asn1.Tag.ContextSpecific: total")
	simple("(golang.org/x/crypto/cryptobyte/asn1.Tag).Constructed", "asn1.Tag.Constructed: total")
	simple("(*debug/pe.File).Close", "pe.File.Close: nil or error")
	simple("(time.Time).IsZero", "Time.IsZero: total predicate")

	// interface methods on symbolic receivers --------------------------------
	ifaceMethods["NewDecoder"] = nonNilIfaceResult
	ifaceMethods["NewEncoder"] = nonNilIfaceResult
}

func nonNilIfaceResult(x *Exec, st *State, fr *Frame, cc *ssa.CallCommon, iv IfaceV, args []Val, instr ssa.Instruction) []Outcome {
	v := x.symResult(st, cc)
	if pv, ok := v.(PtrV); ok && pv.Ref != "" {
		st.assume(tNot(tEq(pv.Ref, "0")))
	}
	if pv, ok := v.(IfaceV); ok && pv.Sym != "" {
		st.assume(tNot(tEq(pv.Sym, "0")))
	}
	return one(st, v)
}

var _ = types.Typ

func init() {
	ifaceMethods["Read"] = func(x *Exec, st *State, fr *Frame, cc *ssa.CallCommon, iv IfaceV, args []Val, instr ssa.Instruction) []Outcome {
		rd := x.readerOf(st, iv)
		if rd == nil || len(args) != 1 {
			return nil
		}
		return x.readStream(st, rd, args[0], cc.Args[0].Type())
	}
}
