package main

// Table-driven assumed contracts for library functions whose only modelled
// behaviour is "total, does not panic, result shaped as stated".

import (
	"math/big"
	"go/types"

	"golang.org/x/tools/go/ssa"
)

type simpleOpt int

const (
	optNonNil   simpleOpt = iota // pointer/interface results are non-nil
	optErrOrVal                  // (v, err): either err != nil (v zero) or err == nil (v non-nil)
	optHavoc                     // may write through pointer arguments
)

func simple(name, doc string, opts ...simpleOpt) {
	has := func(o simpleOpt) bool {
		for _, p := range opts {
			if p == o {
				return true
			}
		}
		return false
	}
	ext(name, doc, func(x *Exec, st *State, fr *Frame, cc *ssa.CallCommon, args []Val, instr ssa.Instruction) []Outcome {
		if has(optHavoc) {
			x.havocForUnknown(st, args)
		}
		sig := cc.Signature()
		res := sig.Results()
		mk := func(st *State, failing bool) Val {
			var vals []Val
			for i := 0; i < res.Len(); i++ {
				t := res.At(i).Type()
				if isErrorType(t) {
					if has(optErrOrVal) {
						if failing {
							vals = append(vals, x.freshErr(st, "exterr"))
						} else {
							vals = append(vals, nilErr())
						}
					} else {
						vals = append(vals, x.freshOrNilErr(st))
					}
					continue
				}
				if failing {
					vals = append(vals, x.zeroVal(st, t))
					continue
				}
				v := x.symVal(st, "ext", t)
				if has(optNonNil) || has(optErrOrVal) {
					switch pv := v.(type) {
					case PtrV:
						if pv.Ref != "" {
							st.assume(tNot(tEq(pv.Ref, "0")))
							// a library-allocated object: fresh
						}
					case IfaceV:
						if pv.Sym != "" {
							st.assume(tNot(tEq(pv.Sym, "0")))
						}
					}
				}
				vals = append(vals, v)
			}
			switch len(vals) {
			case 0:
				return nil
			case 1:
				return vals[0]
			}
			return TupleV(vals)
		}
		if has(optErrOrVal) {
			f := st.fork()
			return []Outcome{{f, mk(f, true)}, {st, mk(st, false)}}
		}
		return one(st, mk(st, false))
	})
}

func init() {
	ext("strings.ReplaceAll", "strings.ReplaceAll(s, old, new): a deterministic function of its arguments (uninterpreted replaceall)",
		func(x *Exec, st *State, fr *Frame, cc *ssa.CallCommon, args []Val, instr ssa.Instruction) []Outcome {
			x.w.Decl("(declare-fun g_replaceall (" + SSeqI + " " + SSeqI + " " + SSeqI + ") " + SSeqI + ")")
			a := x.toTV(st, args[0], types.Typ[types.String]).E
			b := x.toTV(st, args[1], types.Typ[types.String]).E
			c := x.toTV(st, args[2], types.Typ[types.String]).E
			r := app("g_replaceall", a, b, c)
			st.assume(app("g_isbytes", r))
			st.assume(tAnd(tCmp("<=", "0", sLen(SSeqI, r)), tCmp("<=", sLen(SSeqI, r), maxLenLit)))
			return one(st, TV{SSeqI, r})
		})
	ext("encoding/hex.DecodeString", "hex.DecodeString(s): a deterministic function of s (uninterpreted unhex, at most len(s)/2 bytes); the error is nil exactly when hexok(s)",
		func(x *Exec, st *State, fr *Frame, cc *ssa.CallCommon, args []Val, instr ssa.Instruction) []Outcome {
			x.w.Decl("(declare-fun g_unhex (" + SSeqI + ") " + SSeqI + ")")
			x.w.Decl("(declare-fun g_hexok (" + SSeqI + ") Bool)")
			a := x.toTV(st, args[0], types.Typ[types.String]).E
			r := app("g_unhex", a)
			st.assume(app("g_isbytes", r))
			st.assume(tAnd(tCmp("<=", "0", sLen(SSeqI, r)), tCmp("<=", tMulC("2", sLen(SSeqI, r)), sLen(SSeqI, a))))
			bad := st.fork()
			bad.assume(tNot(app("g_hexok", a)))
			st.assume(app("g_hexok", a))
			return []Outcome{{bad, TupleV{TV{SSeqI, r}, x.freshErr(bad, "hexerr")}}, {st, TupleV{TV{SSeqI, r}, nilErr()}}}
		})
	ext("path.Join", "path.Join(a, b): a deterministic function of its two arguments (uninterpreted pathjoin)",
		func(x *Exec, st *State, fr *Frame, cc *ssa.CallCommon, args []Val, instr ssa.Instruction) []Outcome {
			x.w.Decl("(declare-fun g_pathjoin (" + SSeqI + " " + SSeqI + ") " + SSeqI + ")")
			if sv, ok := args[0].(SliceV); ok {
				if tv, ok := st.cells[sv.Cell].(TV); ok && x.cellLen(st, sv.Cell) == "2" && sv.Lo == "0" {
					r := app("g_pathjoin", sIdx(tv.S, tv.E, "0"), sIdx(tv.S, tv.E, "1"))
					st.assume(app("g_isbytes", r))
					st.assume(tAnd(tCmp("<=", "0", sLen(SSeqI, r)), tCmp("<=", sLen(SSeqI, r), maxLenLit)))
					return one(st, TV{SSeqI, r})
				}
				if arr, ok := st.cells[sv.Cell].(ArrV); ok && len(arr.Elems) == 2 {
					a := x.toTV(st, arr.Elems[0], types.Typ[types.String]).E
					b := x.toTV(st, arr.Elems[1], types.Typ[types.String]).E
					r := app("g_pathjoin", a, b)
					st.assume(app("g_isbytes", r))
					st.assume(tAnd(tCmp("<=", "0", sLen(SSeqI, r)), tCmp("<=", sLen(SSeqI, r), maxLenLit)))
					return one(st, TV{SSeqI, r})
				}
			}
			return one(st, TV{SSeqI, x.freshBytes(st, "path")})
		})
	ext("os.IsNotExist", "os.IsNotExist(err): err is (or wraps through a path error) fs.ErrNotExist: class test in the error model",
		func(x *Exec, st *State, fr *Frame, cc *ssa.CallCommon, args []Val, instr ssa.Instruction) []Outcome {
			if e, ok := args[0].(ErrV); ok {
				return one(st, TV{SBool, tEq(e.Class, "3")})
			}
			return one(st, TV{SBool, st.fresh("notexist", SBool)})
		})
	simple("os.ReadFile", "os.ReadFile: returns the file content or an error; never panics", optErrOrVal)
	simple("os.OpenFile", "os.OpenFile: a non-nil file or an error", optErrOrVal)
	simple("os.WriteFile", "os.WriteFile: nil or an error")
	simple("(*os.File).Fd", "File.Fd: total")
	simple("(*os.File).Close", "File.Close: nil or an error")
	simple("crypto/x509.ParseCertificate", "x509.ParseCertificate: a non-nil certificate or an error; never panics; allocation linear in the input (assumed)", optErrOrVal)
	simple("crypto/x509.ParsePKCS8PrivateKey", "x509.ParsePKCS8PrivateKey: a key or an error; never panics", optErrOrVal)
	simple("crypto/x509.MarshalPKCS8PrivateKey", "x509.MarshalPKCS8PrivateKey: bytes or an error", optErrOrVal)
	simple("crypto/rand.Int", "rand.Int: a non-nil integer or an error", optErrOrVal)
	simple("math/big.NewInt", "big.NewInt: non-nil", optNonNil)
	simple("(*math/big.Int).Lsh", "big.Int.Lsh: returns its (non-nil) receiver", optNonNil)
	simple("github.com/spf13/afero.NewMemMapFs", "afero.NewMemMapFs: a non-nil in-memory filesystem", optNonNil)
	simple("github.com/spf13/afero.NewOsFs", "afero.NewOsFs: a non-nil filesystem", optNonNil)
	simple("golang.org/x/text/encoding/unicode.UTF16", "unicode.UTF16: a non-nil encoding", optNonNil)
	simple("golang.org/x/sys/unix.IoctlGetInt", "ioctl wrapper: value or error")
	simple("golang.org/x/sys/unix.IoctlSetPointerInt", "ioctl wrapper: nil or error")
	simple("encoding/pem.Encode", "pem.Encode: writes to the writer; nil or the writer's error", optHavoc)
	simple("(encoding/asn1.ObjectIdentifier).Equal", "ObjectIdentifier.Equal: total predicate")
	simple("(*debug/pe.File).Close", "pe.File.Close: nil or error")

	// interface methods on symbolic receivers --------------------------------
	ifaceMethods["NewDecoder"] = nonNilIfaceResult
	ifaceMethods["NewEncoder"] = nonNilIfaceResult
}

func nonNilIfaceResult(x *Exec, st *State, fr *Frame, cc *ssa.CallCommon, iv IfaceV, args []Val, instr ssa.Instruction) []Outcome {
	v := x.symResult(st, cc)
	if pv, ok := v.(PtrV); ok && pv.Ref != "" {
		st.assume(tNot(tEq(pv.Ref, "0")))
	}
	if pv, ok := v.(IfaceV); ok && pv.Sym != "" {
		st.assume(tNot(tEq(pv.Sym, "0")))
	}
	return one(st, v)
}

var _ = types.Typ

func init() {
	ifaceMethods["Read"] = func(x *Exec, st *State, fr *Frame, cc *ssa.CallCommon, iv IfaceV, args []Val, instr ssa.Instruction) []Outcome {
		rd := x.readerOf(st, iv)
		if rd == nil || len(args) != 1 {
			return nil
		}
		var outs []Outcome
		inMemory := iv.Dyn != nil && (iv.Dyn.String() == "*bytes.Buffer" || iv.Dyn.String() == "*bytes.Reader")
		if x.faulty && !inMemory {
			// fault mode: the read may fail after delivering any part of what was asked for
			// (not for a reader known to be an in-memory buffer: its reads cannot fail)
			f := st.fork()
			n := f.fresh("rn", SInt)
			f.assume(tAnd(tCmp("<=", "0", n), tCmp("<=", n, x.lenOf(f, args[0], cc.Args[0].Type()))))
			x.havocReachable(f, args[0])
			x.markFailed(f, "read")
			outs = append(outs, Outcome{f, TupleV{TV{SInt, n}, x.freshErr(f, "rderr")}})
		}
		// the dynamic type decides what a zero-length read at the end answers; unknown: either
		mode := eofUnknown
		if iv.Dyn != nil {
			switch iv.Dyn.String() {
			case "*bytes.Buffer":
				mode = eofBuffer
			case "*bytes.Reader":
				mode = eofReader
			}
		}
		return append(outs, x.readStream(st, rd, args[0], cc.Args[0].Type(), mode)...)
	}
}

// ---------------------------------------------------------------------------
// hashing and signatures (crypto predicates are uninterpreted)

func cryptoPrelude() string {
	return `
(declare-fun g_hash (Int g_SeqI) g_SeqI)
(declare-fun g_hashsize (Int) Int)
(declare-fun g_sigvalid (Int Int g_SeqI g_SeqI) Bool)
(declare-fun g_pubkey (Int) Int)
(assert (= (g_hashsize 5) 32))
`
}

func cryptoPreludeQ() string {
	return `
(assert (forall ((a Int) (s g_SeqI)) (! (and (g_isbytes (g_hash a s)) (= (g_SeqI_len (g_hash a s)) (g_hashsize a))) :pattern ((g_hash a s)))))
(assert (forall ((a Int)) (! (and (<= 0 (g_hashsize a)) (<= (g_hashsize a) 64)) :pattern ((g_hashsize a)))))
`
}

func init() {
	ext("(crypto.Hash).New", "crypto.Hash.New: a fresh non-nil hash state with empty input (panics only for an unlinked hash function: assumed linked)",
		func(x *Exec, st *State, fr *Frame, cc *ssa.CallCommon, args []Val, instr ssa.Instruction) []Outcome {
			alg := x.toTV(st, args[0], types.Typ[types.Uint]).E
			id := st.allocRef()
			iv := IfaceV{Sym: id, Static: cc.Signature().Results().At(0).Type()}
			st.ghost["out:"+id] = TV{SSeqI, sEmpty(SSeqI)}
			st.ghost["memwriter:"+id] = TV{SBool, "true"}
			st.ghost["hashalg:"+id] = TV{SInt, alg}
			return one(st, iv)
		})
	ifaceMethods["Sum"] = func(x *Exec, st *State, fr *Frame, cc *ssa.CallCommon, iv IfaceV, args []Val, instr ssa.Instruction) []Outcome {
		in, ok := st.ghost["out:"+iv.Sym]
		alg, ok2 := st.ghost["hashalg:"+iv.Sym]
		if !ok || !ok2 || len(args) != 1 {
			return nil
		}
		_, pre := x.seqOf(st, args[0], cc.Args[0].Type())
		h := app("g_hash", alg.(TV).E, in.(TV).E)
		st.assume(tAnd(app("g_isbytes", h), tEq(sLen(SSeqI, h), app("g_hashsize", alg.(TV).E))))
		if pre == sEmpty(SSeqI) {
			return one(st, TV{SSeqI, h})
		}
		return one(st, TV{SSeqI, sApp(SSeqI, pre, h)})
	}
	ifaceMethods["Size"] = func(x *Exec, st *State, fr *Frame, cc *ssa.CallCommon, iv IfaceV, args []Val, instr ssa.Instruction) []Outcome {
		if alg, ok := st.ghost["hashalg:"+iv.Sym]; ok {
			return one(st, TV{SInt, app("g_hashsize", alg.(TV).E)})
		}
		if cc.Signature().Results().Len() == 1 {
			if _, isInt := intRangeOf(cc.Signature().Results().At(0).Type()); isInt {
				x.w.Decl("(declare-fun g_size (Int) Int)")
				v := app("g_size", iv.Sym)
				r, _ := intRangeOf(cc.Signature().Results().At(0).Type())
				st.assume(r.inRange(v))
				return one(st, TV{SInt, v})
			}
		}
		return nil
	}
	ifaceMethods["Write"] = func(x *Exec, st *State, fr *Frame, cc *ssa.CallCommon, iv IfaceV, args []Val, instr ssa.Instruction) []Outcome {
		w, sym := x.writerOf(st, iv)
		if w == nil || len(args) != 1 {
			return nil
		}
		_, s := x.seqOf(st, args[0], cc.Args[0].Type())
		var outs []Outcome
		if st.ghost["memwriter:"+sym] == nil {
			e := st.fork()
			n := e.fresh("wn", SInt)
			e.assume(tAnd(tCmp("<=", "0", n), tCmp("<=", n, sLen(SSeqI, s))))
			w.set(e, sApp(SSeqI, w.get(e), sSl(SSeqI, s, "0", n)))
			outs = append(outs, Outcome{e, TupleV{TV{SInt, n}, x.freshErr(e, "werr")}})
		}
		w.set(st, sApp(SSeqI, w.get(st), s))
		outs = append(outs, Outcome{st, TupleV{TV{SInt, sLen(SSeqI, s)}, nilErr()}})
		return outs
	}
	tagBit := func(name, doc string, bit int64) {
		ext("(golang.org/x/crypto/cryptobyte/asn1.Tag)."+name, doc,
			func(x *Exec, st *State, fr *Frame, cc *ssa.CallCommon, args []Val, instr ssa.Instruction) []Outcome {
				t := x.toTV(st, args[0], types.Typ[types.Uint8]).E
				if v, ok := isNum(t); ok {
					return one(st, TV{SInt, numLit(new(big.Int).Or(v, big.NewInt(bit)))})
				}
				has := tEq(tModC(tDivC(t, big.NewInt(bit)), big.NewInt(2)), "1")
				return one(st, TV{SInt, tIte(has, t, tAdd(t, num(bit)))})
			})
	}
	tagBit("ContextSpecific", "asn1.Tag.ContextSpecific: the tag with bit 0x80 set", 0x80)
	tagBit("Constructed", "asn1.Tag.Constructed: the tag with bit 0x20 set", 0x20)
	ext("(*math/big.Int).Cmp", "big.Int.Cmp(a, b): -1, 0 or +1 by the mathematical values of a and b (the abstract value of a big.Int); panics for a nil operand",
		func(x *Exec, st *State, fr *Frame, cc *ssa.CallCommon, args []Val, instr ssa.Instruction) []Outcome {
			a, ok1 := args[0].(PtrV)
			b, ok2 := args[1].(PtrV)
			if !ok1 || !ok2 || a.Ref == "" || b.Ref == "" || len(a.Path) != 0 || len(b.Path) != 0 {
				r := st.fresh("cmp", SInt)
				st.assume(tAnd(tCmp("<=", "-1", r), tCmp("<=", r, "1")))
				return one(st, TV{SInt, r})
			}
			x.nilCheck(st, fr, a, instr)
			x.nilCheck(st, fr, b, instr)
			d := x.w.DTByName(a.RootSort)
			i := -1
			if d != nil {
				i = d.FieldIndex("abs__")
			}
			if i < 0 {
				r := st.fresh("cmp", SInt)
				st.assume(tAnd(tCmp("<=", "-1", r), tCmp("<=", r, "1")))
				return one(st, TV{SInt, r})
			}
			va := d.Get(i, st.heapSelect(a.RootSort, a.Ref))
			vb := d.Get(i, st.heapSelect(b.RootSort, b.Ref))
			return one(st, TV{SInt, tIte(tCmp("<", va, vb), "-1", tIte(tEq(va, vb), "0", "1"))})
		})
	ext("(*crypto/x509.Certificate).CheckSignature", "Certificate.CheckSignature(algo, signed, sig): nil iff sig is a valid signature of signed under the certificate's public key with that algorithm (uninterpreted predicate sigvalid); never panics for a non-nil certificate",
		func(x *Exec, st *State, fr *Frame, cc *ssa.CallCommon, args []Val, instr ssa.Instruction) []Outcome {
			p, _ := args[0].(PtrV)
			x.nilCheck(st, fr, p, instr)
			algo := x.toTV(st, args[1], types.Typ[types.Int]).E
			_, signed := x.seqOf(st, args[2], cc.Args[2].Type())
			_, sig := x.seqOf(st, args[3], cc.Args[3].Type())
			valid := app("g_sigvalid", app("g_pubkey", p.Ref), algo, signed, sig)
			bad := st.fork()
			bad.assume(tNot(valid))
			st.assume(valid)
			return []Outcome{{bad, x.freshErr(bad, "sigerr")}, {st, nilErr()}}
		})
	ifaceMethods["Sign"] = func(x *Exec, st *State, fr *Frame, cc *ssa.CallCommon, iv IfaceV, args []Val, instr ssa.Instruction) []Outcome {
		if len(args) != 3 {
			return nil
		}
		e := st.fork()
		x.markFailed(e, "sign")
		sig := x.freshBytes(st, "sig")
		x.w.Decl("(declare-fun g_signedby (Int " + SSeqI + " " + SSeqI + ") Bool)")
		_, digest := x.seqOf(st, args[1], cc.Args[1].Type())
		st.assume(app("g_signedby", iv.Sym, digest, sig))
		st.ghost["lastsig"] = TV{SSeqI, sig}
		return []Outcome{{e, TupleV{TV{SSeqI, sEmpty(SSeqI)}, x.freshErr(e, "signerr")}}, {st, TupleV{TV{SSeqI, sig}, nilErr()}}}
	}
	externDoc["interface method Sign"] = "crypto.Signer.Sign: returns an error (no signature) or a signature with signedby(signer, digest, sig)"
	externDoc["interface method Sum"] = "hash.Hash.Sum(b): b || hash(alg, everything written)"
	externDoc["interface method Write"] = "io.Writer.Write(p): appends p (hash states and in-memory buffers never fail; other writers may write a prefix and fail)"
	externDoc["interface method Read"] = "io.Reader.Read(p) on an in-memory stream: copies min(len(p), remaining); io.EOF iff nothing remains and len(p) > 0"
	externDoc["interface method Size"] = "Size(): the declared size of the object (uninterpreted function of its identity)"
}
