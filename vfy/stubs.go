package main

func cmdSelftest(args []string) int { return 2 }
