package main

func specPrelude(x *Exec, quant bool) []string { return nil }
func cmdCheck(args []string) int    { return 2 }
func cmdReplay(args []string) int   { return 2 }
func cmdSelftest(args []string) int { return 2 }
