package main

func specPrelude(x *Exec, quant bool) []string { return nil }
func cmdSelftest(args []string) int { return 2 }
