package main

// Assumed contract of golang.org/x/crypto/cryptobyte as a DER term algebra:
// g_der(tag, body) is the TLV encoding; parsing is its (partial) inverse.

import (
	"fmt"
	"go/types"

	"golang.org/x/tools/go/ssa"
)

func init() {
	ghostStructs["cryptobyte.Builder"] = []DTField{{Name: "out", Sort: SSeqI}, {Name: "err", Sort: SBool}}
}

func derPrelude(quant bool) string {
	s := `
(declare-fun g_der (Int g_SeqI) g_SeqI)
(declare-fun g_dertail (g_SeqI) g_SeqI)
(declare-fun g_parse_ok (g_SeqI) Bool)
(declare-fun g_parse_tag (g_SeqI) Int)
(declare-fun g_parse_body (g_SeqI) g_SeqI)
(declare-fun g_parse_rest (g_SeqI) g_SeqI)
(declare-fun g_oidenc (g_SeqI) g_SeqI)
(declare-fun g_oiddec (g_SeqI) g_SeqI)
(declare-fun g_oidvalid (g_SeqI) Bool)
(declare-fun g_oidbodyok (g_SeqI) Bool)
(declare-fun g_intenc (Int) g_SeqI)
(declare-fun g_intdec (g_SeqI) Int)
(declare-fun g_intbodyok (g_SeqI) Bool)
(declare-fun g_bigenc (Int) g_SeqI)
(declare-fun g_bigdec (g_SeqI) Int)
(declare-fun g_utcenc (Int) g_SeqI)
(declare-fun g_utcdec (g_SeqI) Int)
(declare-fun g_utcok (Int) Bool)
(declare-fun g_utcbodyok (g_SeqI) Bool)
`
	if !quant {
		return s
	}
	s += `
(assert (forall ((t Int) (b g_SeqI)) (! (and (>= (g_SeqI_len (g_der t b)) (+ (g_SeqI_len b) 2)) (<= (g_SeqI_len (g_der t b)) (+ (g_SeqI_len b) 6))) :pattern ((g_der t b)))))
(assert (forall ((t Int) (b g_SeqI)) (! (=> (and (g_isbytes b) (<= 0 t) (<= t 255)) (and (g_isbytes (g_der t b)) (= (g_SeqI_idx (g_der t b) 0) t))) :pattern ((g_der t b)))))
(assert (forall ((t Int) (b g_SeqI)) (! (= (g_SeqI_len (g_der t b)) (+ 1 (g_SeqI_len (g_dertail b)))) :pattern ((g_der t b)))))
(assert (forall ((t Int) (b g_SeqI)) (! (=> (g_isbytes (g_der t b)) (g_isbytes b)) :pattern ((g_der t b)))))
(assert (forall ((t Int) (b g_SeqI) (i Int)) (! (=> (and (<= 1 i) (<= i (g_SeqI_len (g_dertail b)))) (= (g_SeqI_idx (g_der t b) i) (g_SeqI_idx (g_dertail b) (- i 1)))) :pattern ((g_SeqI_idx (g_der t b) i)))))
(assert (forall ((t Int) (b g_SeqI) (r g_SeqI)) (! (=> (and (<= 0 t) (<= t 255) (not (= (mod t 32) 31)) (g_isbytes b))
   (and (g_parse_ok (g_SeqI_app (g_der t b) r)) (= (g_parse_tag (g_SeqI_app (g_der t b) r)) t) (= (g_parse_body (g_SeqI_app (g_der t b) r)) b) (= (g_parse_rest (g_SeqI_app (g_der t b) r)) r)))
   :pattern ((g_SeqI_app (g_der t b) r)))))
(assert (forall ((t Int) (b g_SeqI)) (! (=> (and (<= 0 t) (<= t 255) (not (= (mod t 32) 31)) (g_isbytes b))
   (and (g_parse_ok (g_der t b)) (= (g_parse_tag (g_der t b)) t) (= (g_parse_body (g_der t b)) b) (= (g_parse_rest (g_der t b)) g_SeqI_empty)))
   :pattern ((g_der t b)))))
(assert (forall ((x g_SeqI) (y g_SeqI)) (! (=> (g_parse_ok x) (and (g_parse_ok (g_SeqI_app x y)) (= (g_parse_tag (g_SeqI_app x y)) (g_parse_tag x))
   (= (g_parse_body (g_SeqI_app x y)) (g_parse_body x)) (= (g_parse_rest (g_SeqI_app x y)) (g_SeqI_app (g_parse_rest x) y))))
   :pattern ((g_parse_ok (g_SeqI_app x y))) :pattern ((g_parse_tag (g_SeqI_app x y))) :pattern ((g_parse_body (g_SeqI_app x y))) :pattern ((g_parse_rest (g_SeqI_app x y))))))
(assert (forall ((s g_SeqI)) (! (=> (g_parse_ok s) (and (= s (g_SeqI_app (g_der (g_parse_tag s) (g_parse_body s)) (g_parse_rest s)))
   (<= 0 (g_parse_tag s)) (<= (g_parse_tag s) 255) (not (= (mod (g_parse_tag s) 32) 31)) (>= (g_SeqI_len s) 2)
   (=> (g_isbytes s) (and (g_isbytes (g_parse_body s)) (g_isbytes (g_parse_rest s)) (= (g_parse_tag s) (g_SeqI_idx s 0))))))
   :pattern ((g_parse_ok s)))))
(assert (forall ((o g_SeqI)) (! (=> (g_oidvalid o) (and (g_oidbodyok (g_oidenc o)) (= (g_oiddec (g_oidenc o)) o) (g_isbytes (g_oidenc o)))) :pattern ((g_oidenc o)))))
(assert (forall ((b g_SeqI)) (! (=> (g_oidbodyok b) (and (g_oidvalid (g_oiddec b)) (= (g_oidenc (g_oiddec b)) b) (>= (g_SeqI_len (g_oiddec b)) 2) (<= (g_SeqI_len (g_oiddec b)) (+ (g_SeqI_len b) 1)))) :pattern ((g_oiddec b)))))
(assert (forall ((v Int)) (! (and (g_isbytes (g_intenc v)) (g_intbodyok (g_intenc v)) (= (g_intdec (g_intenc v)) v)) :pattern ((g_intenc v)))))
(assert (forall ((v Int)) (! (and (g_isbytes (g_bigenc v)) (= (g_bigdec (g_bigenc v)) v) (g_intbodyok (g_bigenc v))) :pattern ((g_bigenc v)))))
(assert (forall ((v Int)) (! (=> (g_utcok v) (and (g_isbytes (g_utcenc v)) (g_utcbodyok (g_utcenc v)) (= (g_utcdec (g_utcenc v)) v))) :pattern ((g_utcenc v)))))
(assert (forall ((b g_SeqI)) (! (=> (g_utcbodyok b) (g_utcok (g_utcdec b))) :pattern ((g_utcdec b)))))
`
	return s
}

type cpsHandler func(x *Exec, st *State, fr *Frame, cc *ssa.CallCommon, args []Val, instr ssa.Instruction, k cont)

var cpsExterns = map[string]cpsHandler{}

const cbPkg = "golang.org/x/crypto/cryptobyte"

// strCell: the cell behind a *cryptobyte.String (or *[]byte) argument.
func strCell(v Val) (*Cell, bool) {
	p, ok := v.(PtrV)
	if !ok || p.Cell == nil || len(p.Path) != 0 {
		return nil, false
	}
	return p.Cell, true
}

func (x *Exec) cellSeq(st *State, c *Cell) string {
	_, s := x.seqOf(st, st.cells[c], c.typ)
	return s
}

func (x *Exec) builderRef(st *State, v Val) (PtrV, *DT, bool) {
	p, ok := v.(PtrV)
	if !ok || p.Ref == "" || len(p.Path) != 0 {
		return PtrV{}, nil, false
	}
	d := x.w.DTByName(p.RootSort)
	if d == nil || d.FieldIndex("out") < 0 {
		return PtrV{}, nil, false
	}
	return p, d, true
}

func (x *Exec) builderAppend(st *State, p PtrV, d *DT, data string, errCond string) {
	o := st.heapSelect(p.RootSort, p.Ref)
	out := d.Get(0, o)
	var nout string
	if out == sEmpty(SSeqI) {
		nout = data
	} else {
		nout = sApp(SSeqI, out, data)
	}
	nerr := d.Get(1, o)
	if errCond != "" {
		nerr = tOr(nerr, errCond)
	}
	st.heapStore(p.RootSort, p.Ref, d.Make([]string{nout, nerr}))
}

func tagOf(x *Exec, st *State, v Val) string {
	return x.toTV(st, v, types.Typ[types.Uint8]).E
}

func init() {
	B := "(*" + cbPkg + ".Builder)."
	S := "(*" + cbPkg + ".String)."

	cpsExterns[B+"AddASN1"] = func(x *Exec, st *State, fr *Frame, cc *ssa.CallCommon, args []Val, instr ssa.Instruction, k cont) {
		p, d, ok := x.builderRef(st, args[0])
		clo, ok2 := args[2].(ClosureV)
		if !ok || !ok2 || clo.Fn == nil {
			x.note("AddASN1 on unmodelled builder/continuation")
			x.havocForUnknown(st, args)
			k(st, fr, nil)
			return
		}
		x.nilCheck(st, fr, p, instr)
		tag := tagOf(x, st, args[1])
		child := st.allocRef()
		st.heapStore(p.RootSort, child, d.Make([]string{sEmpty(SSeqI), "false"}))
		childPtr := PtrV{Ref: child, RootSort: p.RootSort, Elem: p.Elem}
		x.extUsed[B+"AddASN1"] = true
		x.inline(st, fr, clo.Fn, x.contracts[fnName(clo.Fn)], clo.Bind, []Val{childPtr}, func(st *State, fr *Frame, _ Val) {
			co := st.heapSelect(p.RootSort, child)
			x.builderAppend(st, p, d, app("g_der", tag, d.Get(0, co)), d.Get(1, co))
			k(st, fr, nil)
		})
	}
	externDoc[B+"AddASN1"] = "Builder.AddASN1(tag, f): runs f on a child builder and appends der(tag, child output); a child error becomes the builder's error"

	addSimple := func(name, doc string, f func(x *Exec, st *State, args []Val, cc *ssa.CallCommon) (data string, errCond string)) {
		ext(B+name, doc, func(x *Exec, st *State, fr *Frame, cc *ssa.CallCommon, args []Val, instr ssa.Instruction) []Outcome {
			p, d, ok := x.builderRef(st, args[0])
			if !ok {
				x.havocForUnknown(st, args)
				return one(st, nil)
			}
			x.nilCheck(st, fr, p, instr)
			data, ec := f(x, st, args, cc)
			x.builderAppend(st, p, d, data, ec)
			return one(st, nil)
		})
	}
	addSimple("AddBytes", "Builder.AddBytes(b): appends b", func(x *Exec, st *State, args []Val, cc *ssa.CallCommon) (string, string) {
		_, s := x.seqOf(st, args[1], cc.Args[1].Type())
		return s, ""
	})
	addSimple("AddASN1ObjectIdentifier", "Builder.AddASN1ObjectIdentifier(oid): appends der(6, oidenc(oid)); an invalid OID sets the builder error", func(x *Exec, st *State, args []Val, cc *ssa.CallCommon) (string, string) {
		_, s := x.seqOf(st, args[1], cc.Args[1].Type())
		return app("g_der", "6", app("g_oidenc", s)), tNot(app("g_oidvalid", s))
	})
	addSimple("AddASN1Int64", "Builder.AddASN1Int64(v): appends der(2, intenc(v))", func(x *Exec, st *State, args []Val, cc *ssa.CallCommon) (string, string) {
		v := x.toTV(st, args[1], types.Typ[types.Int64]).E
		return app("g_der", "2", app("g_intenc", v)), ""
	})
	addSimple("AddASN1BigInt", "Builder.AddASN1BigInt(n): appends der(2, bigenc(n)); requires n != nil", func(x *Exec, st *State, args []Val, cc *ssa.CallCommon) (string, string) {
		return app("g_der", "2", app("g_bigenc", x.absOf(st, args[1]))), ""
	})
	addSimple("AddASN1NULL", "Builder.AddASN1NULL: appends der(5, empty)", func(x *Exec, st *State, args []Val, cc *ssa.CallCommon) (string, string) {
		return app("g_der", "5", sEmpty(SSeqI)), ""
	})
	addSimple("AddASN1OctetString", "Builder.AddASN1OctetString(b): appends der(4, b)", func(x *Exec, st *State, args []Val, cc *ssa.CallCommon) (string, string) {
		_, s := x.seqOf(st, args[1], cc.Args[1].Type())
		return app("g_der", "4", s), ""
	})
	addSimple("AddASN1BitString", "Builder.AddASN1BitString(b): appends der(3, 0x00 || b)", func(x *Exec, st *State, args []Val, cc *ssa.CallCommon) (string, string) {
		_, s := x.seqOf(st, args[1], cc.Args[1].Type())
		return app("g_der", "3", sApp(SSeqI, sUnit(SSeqI, "0"), s)), ""
	})
	addSimple("AddASN1UTCTime", "Builder.AddASN1UTCTime(t): appends der(23, utcenc(t)); a year outside 1950..2049 sets the builder error", func(x *Exec, st *State, args []Val, cc *ssa.CallCommon) (string, string) {
		t := x.absOf(st, args[1])
		return app("g_der", "23", app("g_utcenc", t)), tNot(app("g_utcok", t))
	})
	ext(cbPkg+".NewBuilder", "cryptobyte.NewBuilder(buf): a non-nil builder whose output starts with buf",
		func(x *Exec, st *State, fr *Frame, cc *ssa.CallCommon, args []Val, instr ssa.Instruction) []Outcome {
			t := cc.Signature().Results().At(0).Type().Underlying().(*types.Pointer).Elem()
			sort := x.w.SortOf(t)
			d := x.w.DTByName(sort)
			_, s := x.seqOf(st, args[0], cc.Args[0].Type())
			r := st.allocRef()
			st.heapStore(sort, r, d.Make([]string{s, "false"}))
			return one(st, PtrV{Ref: r, RootSort: sort, Elem: t})
		})
	bytesF := func(panics bool) extHandler {
		return func(x *Exec, st *State, fr *Frame, cc *ssa.CallCommon, args []Val, instr ssa.Instruction) []Outcome {
			p, d, ok := x.builderRef(st, args[0])
			if !ok {
				return one(st, x.symResult(st, cc))
			}
			x.nilCheck(st, fr, p, instr)
			o := st.heapSelect(p.RootSort, p.Ref)
			errT := d.Get(1, o)
			out := d.Get(0, o)
			st.assume(app("g_isbytes", out))
			if panics {
				x.safe(st, fr, "unreachable", tNot(errT), instr)
				st.assume(tNot(errT))
				return one(st, TV{SSeqI, out})
			}
			if errT == "false" {
				return one(st, TupleV{TV{SSeqI, out}, nilErr()})
			}
			bad := st.fork()
			bad.assume(errT)
			st.assume(tNot(errT))
			return []Outcome{{bad, TupleV{TV{SSeqI, sEmpty(SSeqI)}, x.freshErr(bad, "builderr")}}, {st, TupleV{TV{SSeqI, out}, nilErr()}}}
		}
	}
	ext(B+"Bytes", "Builder.Bytes: (output, nil), or (nil, err) if an operation failed", bytesF(false))
	ext(B+"BytesOrPanic", "Builder.BytesOrPanic: output; panics iff an operation failed", bytesF(true))

	// ---- String -----------------------------------------------------------
	// readTLV: common part of ReadASN1 / ReadASN1Element / SkipASN1 / typed reads.
	readTLV := func(x *Exec, st *State, fr *Frame, recv Val, tag string, instr ssa.Instruction,
		onOK func(st *State, body, whole string), setOutOnMismatch func(st *State, body, whole string)) []Outcome {
		c, ok := strCell(recv)
		if !ok {
			st.kill("cryptobyte.String receiver is not a local/parameter variable")
			return one(st, TV{SBool, "false"})
		}
		s := x.cellSeq(st, c)
		pok := app("g_parse_ok", s)
		ptag := app("g_parse_tag", s)
		body := app("g_parse_body", s)
		rest := app("g_parse_rest", s)
		whole := app("g_der", ptag, body)
		// 1. no element
		none := st.fork()
		none.assume(tNot(pok))
		// 2. element with another tag: consumed, reported as failure
		mis := st.fork()
		mis.assume(tAnd(pok, tNot(tEq(ptag, tag))))
		mis.cells[c] = TV{SSeqI, rest}
		if setOutOnMismatch != nil {
			setOutOnMismatch(mis, body, whole)
		}
		// 3. success
		st.assume(tAnd(pok, tEq(ptag, tag)))
		st.assume(tEq(s, sApp(SSeqI, whole, rest)))
		st.assume(tAnd(app("g_isbytes", body), app("g_isbytes", rest)))
		st.assume(tAnd(tCmp("<=", "0", sLen(SSeqI, body)), tCmp("<=", "0", sLen(SSeqI, rest)), tCmp("<=", tAdd(tAdd(sLen(SSeqI, body), sLen(SSeqI, rest)), "2"), sLen(SSeqI, s))))
		st.cells[c] = TV{SSeqI, rest}
		onOK(st, body, whole)
		return []Outcome{{none, TV{SBool, "false"}}, {mis, TV{SBool, "false"}}, {st, TV{SBool, "true"}}}
	}
	setStr := func(x *Exec, out Val) func(st *State, v string) {
		return func(st *State, v string) {
			if c, ok := strCell(out); ok {
				st.cells[c] = TV{SSeqI, v}
				return
			}
			if p, ok := out.(PtrV); ok && !p.Nil {
				x.store(st, p, TV{SSeqI, v})
			}
		}
	}
	ext(S+"ReadASN1", "String.ReadASN1(out, tag): if the string starts with a DER element der(t, body): consumes it; true iff t == tag, then *out = body; false and unchanged if there is no element",
		func(x *Exec, st *State, fr *Frame, cc *ssa.CallCommon, args []Val, instr ssa.Instruction) []Outcome {
			set := setStr(x, args[1])
			return readTLV(x, st, fr, args[0], tagOf(x, st, args[2]), instr,
				func(st *State, body, whole string) { set(st, body) }, func(st *State, body, whole string) { set(st, body) })
		})
	ext(S+"ReadASN1Element", "String.ReadASN1Element(out, tag): as ReadASN1 but *out = the whole element",
		func(x *Exec, st *State, fr *Frame, cc *ssa.CallCommon, args []Val, instr ssa.Instruction) []Outcome {
			set := setStr(x, args[1])
			return readTLV(x, st, fr, args[0], tagOf(x, st, args[2]), instr,
				func(st *State, body, whole string) { set(st, whole) }, func(st *State, body, whole string) { set(st, whole) })
		})
	ext(S+"ReadAnyASN1", "String.ReadAnyASN1(out, outTag): if the string starts with a DER element: consumes it, *out = body, *outTag = its tag, true; false and unchanged otherwise",
		func(x *Exec, st *State, fr *Frame, cc *ssa.CallCommon, args []Val, instr ssa.Instruction) []Outcome {
			c, ok := strCell(args[0])
			if !ok {
				st.kill("cryptobyte.String receiver is not a local/parameter variable")
				return one(st, TV{SBool, "false"})
			}
			s := x.cellSeq(st, c)
			pok := app("g_parse_ok", s)
			ptag := app("g_parse_tag", s)
			body := app("g_parse_body", s)
			rest := app("g_parse_rest", s)
			none := st.fork()
			none.assume(tNot(pok))
			st.assume(pok)
			st.assume(tEq(s, sApp(SSeqI, app("g_der", ptag, body), rest)))
			st.assume(tAnd(app("g_isbytes", body), app("g_isbytes", rest)))
			st.assume(tAnd(tCmp("<=", "0", sLen(SSeqI, body)), tCmp("<=", "0", sLen(SSeqI, rest)), tCmp("<=", tAdd(tAdd(sLen(SSeqI, body), sLen(SSeqI, rest)), "2"), sLen(SSeqI, s))))
			st.assume(tAnd(tCmp("<=", "0", ptag), tCmp("<=", ptag, "255")))
			st.cells[c] = TV{SSeqI, rest}
			setStr(x, args[1])(st, body)
			if p, ok := args[2].(PtrV); ok && !p.Nil {
				x.store(st, p, TV{SInt, ptag})
			}
			return []Outcome{{none, TV{SBool, "false"}}, {st, TV{SBool, "true"}}}
		})
	ext(S+"SkipASN1", "String.SkipASN1(tag): ReadASN1 discarding the body",
		func(x *Exec, st *State, fr *Frame, cc *ssa.CallCommon, args []Val, instr ssa.Instruction) []Outcome {
			return readTLV(x, st, fr, args[0], tagOf(x, st, args[1]), instr, func(st *State, body, whole string) {}, nil)
		})
	ext(S+"ReadOptionalASN1", "String.ReadOptionalASN1(out, present, tag): present = first byte == tag; if present behaves as ReadASN1, else true and unchanged",
		func(x *Exec, st *State, fr *Frame, cc *ssa.CallCommon, args []Val, instr ssa.Instruction) []Outcome {
			c, ok := strCell(args[0])
			if !ok {
				st.kill("cryptobyte.String receiver is not a local/parameter variable")
				return one(st, TV{SBool, "false"})
			}
			s := x.cellSeq(st, c)
			tag := tagOf(x, st, args[3])
			present := tAnd(tCmp("<", "0", sLen(SSeqI, s)), tEq(sIdx(SSeqI, s, "0"), tag))
			setPresent := func(st *State, v string) {
				if p, ok := args[2].(PtrV); ok && !p.Nil {
					x.store(st, p, TV{SBool, v})
				}
			}
			absent := st.fork()
			absent.assume(tNot(present))
			setPresent(absent, "false")
			st.assume(present)
			setPresent(st, "true")
			set := setStr(x, args[1])
			outs := readTLV(x, st, fr, args[0], tag, instr,
				func(st *State, body, whole string) { set(st, body) }, func(st *State, body, whole string) { set(st, body) })
			return append([]Outcome{{absent, TV{SBool, "true"}}}, outs...)
		})
	ext(S+"ReadASN1ObjectIdentifier", "String.ReadASN1ObjectIdentifier(out): ReadASN1 with tag 6 and a well-formed OID body; *out = oiddec(body)",
		func(x *Exec, st *State, fr *Frame, cc *ssa.CallCommon, args []Val, instr ssa.Instruction) []Outcome {
			outs := readTLV(x, st, fr, args[0], "6", instr, func(st *State, body, whole string) {}, nil)
			okSt := outs[2].St
			body := app("g_parse_body", "") // placeholder, recomputed below
			_ = body
			// the success outcome splits on the body being a valid OID encoding
			c, _ := strCell(args[0])
			_ = c
			return x.typedBody(okSt, outs, args[1], "g_oidbodyok", func(st *State, b string) Val {
				o := app("g_oiddec", b)
				st.assume(tAnd(tCmp("<=", "2", sLen(SSeqI, o)), tCmp("<=", sLen(SSeqI, o), tAdd(sLen(SSeqI, b), "1"))))
				return TV{SSeqI, o}
			})
		})
	ext(S+"ReadASN1Integer", "String.ReadASN1Integer(out): ReadASN1 with tag 2 and a minimal integer body; *out = the value (int64 range checked for *int64)",
		func(x *Exec, st *State, fr *Frame, cc *ssa.CallCommon, args []Val, instr ssa.Instruction) []Outcome {
			outs := readTLV(x, st, fr, args[0], "2", instr, func(st *State, body, whole string) {}, nil)
			iv, _ := args[1].(IfaceV)
			target := iv.Payload
			return x.typedBody(outs[2].St, outs, target, "g_intbodyok", func(st *State, b string) Val {
				if p, ok := target.(PtrV); ok {
					if r, isInt := intRangeOf(p.Elem); isInt {
						v := app("g_intdec", b)
						st.assume(r.inRange(v))
						return TV{SInt, v}
					}
					// *big.Int: abstract value
					if p.Ref != "" {
						d := x.w.DTByName(p.RootSort)
						if d != nil {
							i := d.FieldIndex("abs__")
							o := st.heapSelect(p.RootSort, p.Ref)
							return TV{p.RootSort, d.With(o, i, app("g_bigdec", b))}
						}
					}
				}
				return nil
			})
		})
	ext(S+"ReadASN1UTCTime", "String.ReadASN1UTCTime(out): ReadASN1 with tag 23 and a well-formed UTCTime body",
		func(x *Exec, st *State, fr *Frame, cc *ssa.CallCommon, args []Val, instr ssa.Instruction) []Outcome {
			outs := readTLV(x, st, fr, args[0], "23", instr, func(st *State, body, whole string) {}, nil)
			return x.typedBody(outs[2].St, outs, args[1], "g_utcbodyok", func(st *State, b string) Val {
				if p, ok := args[1].(PtrV); ok {
					sort := x.w.SortOf(p.Elem)
					if d := x.w.DTByName(sort); d != nil {
						return TV{sort, d.Make([]string{app("g_utcdec", b)})}
					}
				}
				return nil
			})
		})
	ext("("+cbPkg+".String).PeekASN1Tag", "String.PeekASN1Tag(tag): non-empty and first byte == tag",
		func(x *Exec, st *State, fr *Frame, cc *ssa.CallCommon, args []Val, instr ssa.Instruction) []Outcome {
			_, s := x.seqOf(st, args[0], cc.Args[0].Type())
			tag := tagOf(x, st, args[1])
			return one(st, TV{SBool, tAnd(tCmp("<", "0", sLen(SSeqI, s)), tEq(sIdx(SSeqI, s, "0"), tag))})
		})
	ext("("+cbPkg+".String).Empty", "String.Empty: len == 0",
		func(x *Exec, st *State, fr *Frame, cc *ssa.CallCommon, args []Val, instr ssa.Instruction) []Outcome {
			_, s := x.seqOf(st, args[0], cc.Args[0].Type())
			return one(st, TV{SBool, tEq(sLen(SSeqI, s), "0")})
		})
	ext("(encoding/asn1.ObjectIdentifier).Equal", "ObjectIdentifier.Equal: element-wise equality",
		func(x *Exec, st *State, fr *Frame, cc *ssa.CallCommon, args []Val, instr ssa.Instruction) []Outcome {
			_, a := x.seqOf(st, args[0], cc.Args[0].Type())
			_, b := x.seqOf(st, args[1], cc.Args[1].Type())
			return one(st, TV{SBool, tEq(a, b)})
		})
}

// typedBody refines the success outcome of a TLV read by a body-format check.
func (x *Exec) typedBody(okSt *State, outs []Outcome, target Val, okPred string, mk func(st *State, body string) Val) []Outcome {
	// the body is the parse_body of the pre-state string; recover it from the
	// last assumption that equates s with app(der(...), rest)
	body := ""
	for p := okSt.assumes; p != nil; p = p.tail {
		if args, ok := splitCtor(p.head, "="); ok && len(args) == 2 {
			if a2, ok := splitCtor(args[1], seqFn(SSeqI, "app")); ok && len(a2) == 2 {
				if d, ok := splitCtor(a2[0], "g_der"); ok && len(d) == 2 {
					body = d[1]
					break
				}
			}
		}
	}
	if body == "" {
		okSt.kill("internal: TLV body not found")
		return outs
	}
	bad := okSt.fork()
	bad.assume(tNot(app(okPred, body)))
	okSt.assume(app(okPred, body))
	v := mk(okSt, body)
	if v != nil {
		if p, ok := target.(PtrV); ok && !p.Nil {
			x.store(okSt, p, v)
		}
	}
	return []Outcome{outs[0], outs[1], {bad, TV{SBool, "false"}}, {okSt, TV{SBool, "true"}}}
}

// absOf: the abstract value of an opaque library object (big.Int, time.Time).
func (x *Exec) absOf(st *State, v Val) string {
	switch u := v.(type) {
	case PtrV:
		if u.Ref != "" && len(u.Path) == 0 {
			if d := x.w.DTByName(u.RootSort); d != nil {
				if i := d.FieldIndex("abs__"); i >= 0 {
					return d.Get(i, st.heapSelect(u.RootSort, u.Ref))
				}
			}
		}
	case TV:
		if d := x.w.DTByName(u.S); d != nil {
			if i := d.FieldIndex("abs__"); i >= 0 {
				return d.Get(i, u.E)
			}
		}
	}
	return st.fresh("abs", SInt)
}

var _ = fmt.Sprintf

// Decoders and body well-formedness predicates of the DER algebra as contract vocabulary
// (completeness contracts of the parser: C05 parse-after-sign, C16 grammar), and the assumed
// contract of x509.ParseCertificates.
func init() {
	byteSlice := types.NewSlice(types.Typ[types.Uint8])
	pred := func(name, fn string) {
		specFuncs[name] = func(e *specEnv, args []SV) SV {
			return SV{V: TV{SBool, app(fn, e.term(args[0]))}}
		}
	}
	pred("oidbodyok", "g_oidbodyok")
	pred("intbodyok", "g_intbodyok")
	pred("utcbodyok", "g_utcbodyok")
	specFuncs["oiddec"] = func(e *specEnv, args []SV) SV {
		return SV{V: TV{SSeqI, app("g_oiddec", e.term(args[0]))}}
	}
	specFuncs["intdec"] = func(e *specEnv, args []SV) SV {
		return SV{V: TV{SInt, app("g_intdec", e.term(args[0]))}}
	}
	specFuncs["bigdec"] = func(e *specEnv, args []SV) SV {
		return SV{V: TV{SInt, app("g_bigdec", e.term(args[0]))}}
	}
	specFuncs["timeval"] = func(e *specEnv, args []SV) SV { // the instant of a time.Time value
		return SV{V: TV{SInt, e.timeTerm(args[0])}}
	}
	specFuncs["utcdec"] = func(e *specEnv, args []SV) SV {
		return SV{V: TV{SInt, app("g_utcdec", e.term(args[0]))}}
	}
	// certsok(raw): x509.ParseCertificates accepts raw; then the certificates it returns are
	// certsof(raw), each non-nil with a non-nil serial number
	specFuncs["certsok"] = func(e *specEnv, args []SV) SV {
		e.x.w.Decl("(declare-fun g_certsok (" + SSeqI + ") Bool)")
		return SV{V: TV{SBool, app("g_certsok", e.term(args[0]))}}
	}
	specFuncs["certsof"] = func(e *specEnv, args []SV) SV {
		e.x.w.Decl("(declare-fun g_certsof (" + SSeqI + ") " + SSeqI + ")")
		return SV{V: TV{SSeqI, app("g_certsof", e.term(args[0]))}}
	}
	_ = byteSlice
	ext("crypto/x509.ParseCertificates", "x509.ParseCertificates(raw): an error, or - exactly when certsok(raw) - the certificates certsof(raw) (a function of the bytes), each non-nil; never panics; allocation linear in the input (assumed)",
		func(x *Exec, st *State, fr *Frame, cc *ssa.CallCommon, args []Val, instr ssa.Instruction) []Outcome {
			_, raw := x.seqOf(st, args[0], cc.Args[0].Type())
			x.w.Decl("(declare-fun g_certsok (" + SSeqI + ") Bool)")
			x.w.Decl("(declare-fun g_certsof (" + SSeqI + ") " + SSeqI + ")")
			bad := st.fork()
			bad.assume(tNot(app("g_certsok", raw)))
			st.assume(app("g_certsok", raw))
			rt := cc.Signature().Results().At(0).Type()
			certs := app("g_certsof", raw)
			st.advanceTop()
			x.typeFacts(st, rt, certs)
			x.freshN++
			q := fmt.Sprintf("q_i_%d", x.freshN)
			st.assume(fmt.Sprintf("(forall ((%s Int)) (! (=> (and (<= 0 %s) (< %s %s)) (< 0 %s)) :pattern (%s)))", q, q, q, sLen(SSeqI, certs), sIdx(SSeqI, certs, q), sIdx(SSeqI, certs, q)))
			zero := x.zeroTerm(rt)
			return []Outcome{{bad, TupleV{TV{x.w.SortOf(rt), zero}, x.freshErr(bad, "x509err")}}, {st, TupleV{TV{x.w.SortOf(rt), certs}, nilErr()}}}
		})
}
