package main

// Symbolic execution of go/ssa functions, path by path; loops are cut at
// invariants, callees are used through their contracts (or inlined when they
// are loop-free helpers without a contract).

import (
	"fmt"
	"os"
	"go/ast"
	"go/token"
	"go/types"
	"sort"
	"strings"

	"golang.org/x/tools/go/ssa"
)

type Query struct {
	Unit    string // function under verification
	Name    string // obligation name
	Kind    string
	Label   string // contract label ("" for automatic ones)
	Props   []string
	Decls   []string
	Assumes []string
	Goal    string
	Pos     string
	PathID  int
	Smoke   bool // vacuity check: expected NOT unsat
	Meta    map[string]string
}

type Exec struct {
	w         *World
	prog      *ssa.Program
	fset      *token.FileSet
	contracts map[string]*Contract
	queries   []*Query
	trivial   map[string]int // obligations folded to true on the Go side (by name)
	oos       []string       // out-of-subset notes
	notes     map[string]bool
	freshN    int
	initialClock string // ghost clock readings at unit entry (shared constant)
	opaqueAx  map[string]string // defining axioms of opaque predicates, by symbol
	opaqueRec map[string]bool   // opaque predicates whose definition mentions themselves
	aliasCells map[string]*Cell // slice variables whose backing array an append wrote into, by ghost key
	nameSnap  map[string][]string // declared names per function on the pinned tree (props/localnames.json)
	lemmaAx     string // axioms generated from proved lemma functions (see lemmaax.go)
	lemmaAxDone bool
	cellN     int
	typeTags  map[string]int64
	unit      *ssa.Function
	unitC     *Contract
	pathN     int
	ordinals  map[*ssa.Function]map[ssa.Instruction]string
	loops     map[*ssa.Function]*LoopInfo
	errClass  map[string]int64
	globalsRO map[*ssa.Global]bool
	globalInit map[*ssa.Global]func(st *State) Val
	maxPaths  int
	faulty    bool // C15 mode: dependency calls may fail
	extUsed   map[string]bool
	returned  int // number of completed return paths in the unit
	keepLen    bool
	heapDefs   map[string]heapDef
	initialHeaps map[string]string
	initialTrace string
	initialStore string
	totalSteps int
	stepBudget int
	budgetHit  bool
	inputSize string
	entry     *State
	unitFrame *Frame
}

type Frame struct {
	fn      *ssa.Function
	vals    map[ssa.Value]Val
	parent  *Frame
	onRet   func(st *State, parent *Frame, res []Val)
	defers  []deferred
	depth   int
	params  map[string]Val
	entry   *State // snapshot for old()
	cutLoops map[int]*loopCut
	contract *Contract
	prefix  string // obligation-name prefix for inlined frames
	names   map[string]nameRef // source variable name -> current SSA value (from DebugRef)
	curLoop *Loop
}

type nameRef struct {
	v    ssa.Value
	addr bool
}

type deferred struct {
	call *ssa.CallCommon
	fn   Val
	args []Val
	pos  token.Pos
	instr ssa.Instruction
}

type loopCut struct {
	variant string
	entry   *State
	failed  string // fault mode: "some dependency has failed" at the loop head
	globals map[*Cell]string // package-level variables at the loop head
	ghosts  map[string]string // trace/store/clock/lastsig terms at the loop head ("" = untouched so far)
}

var cutGhostKeys = []string{"trace", "store", "exists", "clock", "lastsig"}

func (fr *Frame) copy() *Frame {
	if fr == nil {
		return nil
	}
	n := *fr
	n.vals = make(map[ssa.Value]Val, len(fr.vals))
	for k, v := range fr.vals {
		n.vals[k] = v
	}
	n.defers = append([]deferred(nil), fr.defers...)
	n.cutLoops = make(map[int]*loopCut, len(fr.cutLoops))
	for k, v := range fr.cutLoops {
		n.cutLoops[k] = v
	}
	n.parent = fr.parent.copy()
	if fr.names != nil {
		n.names = make(map[string]nameRef, len(fr.names))
		for k, v := range fr.names {
			n.names[k] = v
		}
	}
	return &n
}

func (x *Exec) note(s string) {
	if x.notes == nil {
		x.notes = map[string]bool{}
	}
	x.notes[s] = true
}

func (x *Exec) posOf(i ssa.Instruction) string {
	p := i.Pos()
	if !p.IsValid() {
		return ""
	}
	pp := x.fset.Position(p)
	return fmt.Sprintf("%s:%d", pp.Filename, pp.Line)
}

func fnName(fn *ssa.Function) string {
	if fn.Pkg != nil {
		return fn.Pkg.Pkg.Path() + "." + fn.RelString(fn.Pkg.Pkg)
	}
	if fn.Parent() != nil {
		return fnName(fn.Parent()) + "$" + strings.TrimPrefix(fn.Name(), fn.Parent().Name()+"$")
	}
	return fn.String()
}

// ---------------------------------------------------------------------------
// obligations

func (x *Exec) ordinal(fn *ssa.Function, instr ssa.Instruction, kind string) string {
	m := x.ordinals[fn]
	if m == nil {
		m = map[ssa.Instruction]string{}
		cnt := map[string]int{}
		for _, b := range fn.Blocks {
			for _, in := range b.Instrs {
				k := instrKind(in)
				if k == "" {
					continue
				}
				cnt[k]++
				m[in] = fmt.Sprintf("%s#%d", k, cnt[k])
			}
		}
		x.ordinals[fn] = m
	}
	if s, ok := m[instr]; ok {
		// s is "<instrkind>#n"; the obligation kind may differ from instr kind
		parts := strings.SplitN(s, "#", 2)
		return kind + "@" + parts[0] + "#" + parts[1]
	}
	return kind
}

func instrKind(in ssa.Instruction) string {
	switch v := in.(type) {
	case *ssa.IndexAddr, *ssa.Index:
		return "index"
	case *ssa.Slice:
		return "slice"
	case *ssa.MakeSlice:
		return "make"
	case *ssa.FieldAddr:
		return "field"
	case *ssa.UnOp:
		if v.Op == token.MUL {
			return "load"
		}
		return ""
	case *ssa.Store:
		return "store"
	case *ssa.BinOp:
		if v.Op == token.QUO || v.Op == token.REM {
			return "div"
		}
		return ""
	case *ssa.TypeAssert:
		return "assert"
	case *ssa.Call, *ssa.Defer:
		return "call"
	case *ssa.Panic:
		return "panic"
	case *ssa.Return:
		return "return"
	case *ssa.Convert:
		return ""
	}
	return ""
}

// oblige records a proof obligation: under the path's assumptions, goal holds.
func (x *Exec) oblige(st *State, fr *Frame, name, kind, label, goal string, instr ssa.Instruction, meta map[string]string) {
	if st.dead != "" {
		return
	}
	full := fnName(x.unit) + "#" + fr.prefix + name
	if goal == "true" {
		x.trivial[full]++
		return
	}
	q := &Query{Unit: fnName(x.unit), Name: full, Kind: kind, Label: label, Goal: goal,
		Decls: st.decls.slice(), Assumes: st.assumes.slice(), PathID: x.pathN, Meta: meta}
	if instr != nil {
		q.Pos = x.posOf(instr)
	}
	x.queries = append(x.queries, q)
}

func (x *Exec) safe(st *State, fr *Frame, kind string, goal string, instr ssa.Instruction) {
	x.oblige(st, fr, x.ordinal(fr.fn, instr, "safe."+kind), "safe."+kind, "", goal, instr, nil)
}

func (x *Exec) nilCheck(st *State, fr *Frame, p PtrV, instr ssa.Instruction) {
	if p.Nil {
		x.safe(st, fr, "nil", "false", instr)
		st.kill("nil dereference")
		return
	}
	if p.Ref != "" && !x.knownNonNil(st, p.Ref) {
		x.safe(st, fr, "nil", tNot(tEq(p.Ref, "0")), instr)
		st.assume(tNot(tEq(p.Ref, "0")))
	}
}

func (x *Exec) knownNonNil(st *State, ref string) bool {
	base, _ := splitOffset(ref)
	return strings.HasPrefix(base, "g_top")
}

// ---------------------------------------------------------------------------
// running

func (x *Exec) get(st *State, fr *Frame, v ssa.Value) Val {
	switch c := v.(type) {
	case *ssa.Const:
		return x.constVal(st, c)
	case *ssa.Global:
		return x.globalPtr(st, c)
	case *ssa.Function:
		return ClosureV{Fn: c}
	case *ssa.Builtin:
		return OpaqueV{"builtin:" + c.Name()}
	}
	if val, ok := fr.vals[v]; ok {
		return val
	}
	st.kill(fmt.Sprintf("use of unevaluated SSA value %s in %s", v.Name(), fr.fn.Name()))
	return x.zeroVal(st, v.Type())
}

func (x *Exec) tv(st *State, fr *Frame, v ssa.Value) TV {
	val := x.get(st, fr, v)
	return x.toTV(st, val, v.Type())
}

// runBlock executes block b from instruction index i.
func (x *Exec) runBlock(st *State, fr *Frame, b *ssa.BasicBlock, i int) {
	for ; i < len(b.Instrs); i++ {
		if st.dead != "" {
			x.pathEnd(st, fr)
			return
		}
		st.steps++
		x.totalSteps++
		if x.totalSteps > x.stepBudget {
			if !x.budgetHit {
				x.budgetHit = true
				x.oos = append(x.oos, fmt.Sprintf("%s: exploration budget exhausted (path explosion)", fnName(x.unit)))
			}
			st.kill("infeasible")
			x.pathEnd(st, fr)
			return
		}
		if st.steps > 20000 {
			st.kill("step limit")
			x.pathEnd(st, fr)
			return
		}
		instr := b.Instrs[i]
		switch in := instr.(type) {
		case *ssa.If:
			c := x.tv(st, fr, in.Cond).E
			if v, ok := st.knownTruth(c); ok {
				c = tBool(v)
			}
			switch c {
			case "true":
				x.enter(st, fr, b, b.Succs[0])
			case "false":
				x.enter(st, fr, b, b.Succs[1])
			default:
				st2 := st.fork()
				fr2 := fr.copy()
				st.assume(c)
				st2.assume(tNot(c))
				// leaving a range loop: the index equals the length (implied by the
				// bounds; stated as an equality to help E-matching)
				if lp := x.loopInfo(fr.fn).byHeader[b]; lp != nil && lp.rangeIdx != nil {
					if bo, ok := in.Cond.(*ssa.BinOp); ok && bo.Op == token.LSS {
						st2.assume(tEq(x.tv(st2, fr2, bo.X).E, x.tv(st2, fr2, bo.Y).E))
					}
				}
				x.enter(st, fr, b, b.Succs[0])
				x.enter(st2, fr2, b, b.Succs[1])
			}
			return
		case *ssa.Jump:
			x.enter(st, fr, b, b.Succs[0])
			return
		case *ssa.Return:
			var res []Val
			for _, r := range in.Results {
				res = append(res, x.get(st, fr, r))
			}
			x.doReturn(st, fr, res, in)
			return
		case *ssa.Panic:
			x.safe(st, fr, "unreachable", "false", in)
			st.kill("panic")
			x.pathEnd(st, fr)
			return
		case *ssa.Call:
			// calls may fork; continue each outcome after this instruction
			x.doCall(st, fr, in.Common(), in, func(st *State, fr *Frame, v Val) {
				fr.vals[in] = v
				x.runBlock(st, fr, b, i+1)
			})
			return
		case *ssa.Defer:
			d := deferred{call: in.Common(), pos: in.Pos(), instr: in}
			if !in.Call.IsInvoke() {
				d.fn = x.get(st, fr, in.Call.Value)
			} else {
				d.fn = x.get(st, fr, in.Call.Value)
			}
			for _, a := range in.Call.Args {
				d.args = append(d.args, x.get(st, fr, a))
			}
			fr.defers = append(fr.defers, d)
		case *ssa.RunDefers:
			if len(fr.defers) > 0 {
				x.runDefers(st, fr, func(st *State, fr *Frame) { x.runBlock(st, fr, b, i+1) })
				return
			}
		case *ssa.Go, *ssa.Select, *ssa.Send:
			st.kill("concurrency construct (out of subset)")
		default:
			x.step(st, fr, instr)
		}
	}
}

func (x *Exec) runDefers(st *State, fr *Frame, k func(st *State, fr *Frame)) {
	if len(fr.defers) == 0 {
		k(st, fr)
		return
	}
	d := fr.defers[len(fr.defers)-1]
	fr.defers = fr.defers[:len(fr.defers)-1]
	x.doCallVals(st, fr, d.call, d.fn, d.args, d.instr, func(st *State, fr *Frame, v Val) {
		x.runDefers(st, fr, k)
	})
}

// pathEnd is called when a path stops without a return (dead/out of subset).
func (x *Exec) pathEnd(st *State, fr *Frame) {
	x.pathN++
	if st.dead != "" && !benignDeath(st.dead) {
		x.oos = append(x.oos, fmt.Sprintf("%s: %s", fnName(x.unit), st.dead))
	}
}

func benignDeath(r string) bool {
	switch r {
	case "panic", "exit", "nil dereference", "loop back edge", "infeasible":
		return true
	}
	return false
}

// enter moves along the CFG edge from -> to, handling loop heads and phis.
func (x *Exec) enter(st *State, fr *Frame, from, to *ssa.BasicBlock) {
	li := x.loopInfo(fr.fn)
	lp := li.byHeader[to]
	predIdx := -1
	for k, p := range to.Preds {
		if p == from {
			predIdx = k
			break
		}
	}
	phiVals := func() map[*ssa.Phi]Val {
		m := map[*ssa.Phi]Val{}
		for _, in := range to.Instrs {
			ph, ok := in.(*ssa.Phi)
			if !ok {
				break
			}
			m[ph] = x.get(st, fr, ph.Edges[predIdx])
		}
		return m
	}
	if lp != nil && !lp.unroll {
		if lp.body[from] {
			x.loopBack(st, fr, lp, phiVals())
			return
		}
		x.loopEntry(st, fr, lp, phiVals())
		return
	}
	st.visits[to]++
	if st.visits[to] > 300 {
		st.kill(fmt.Sprintf("block %d of %s visited too often: loop needs an invariant", to.Index, fr.fn.Name()))
		x.pathEnd(st, fr)
		return
	}
	pv := phiVals()
	for ph, v := range pv {
		fr.vals[ph] = v
		x.bindPhiName(fr, ph)
	}
	x.runBlock(st, fr, to, len(pv))
}

func (x *Exec) doReturn(st *State, fr *Frame, res []Val, in *ssa.Return) {
	if fr.parent != nil {
		parent := fr.parent
		fr.onRet(st, parent, res)
		return
	}
	x.unitReturn(st, fr, res, in)
	x.pathN++
}

// ---------------------------------------------------------------------------
// single instructions

func (x *Exec) step(st *State, fr *Frame, instr ssa.Instruction) {
	switch in := instr.(type) {
	case *ssa.Alloc:
		t := in.Type().Underlying().(*types.Pointer).Elem()
		if isStructLike(t) {
			r := st.allocRef()
			sort := x.w.SortOf(t)
			st.heapStore(sort, r, x.zeroTerm(t))
			fr.vals[in] = PtrV{Ref: r, RootSort: sort, Elem: t}
		} else {
			c := st.newCell(in.Comment, t, nil)
			st.cells[c] = x.zeroVal(st, t)
			fr.vals[in] = PtrV{Cell: c, Elem: t}
		}
	case *ssa.Store:
		p, ok := x.get(st, fr, in.Addr).(PtrV)
		if !ok {
			st.kill("store through non-pointer value")
			return
		}
		x.nilCheck(st, fr, p, in)
		x.store(st, p, x.get(st, fr, in.Val))
	case *ssa.UnOp:
		fr.vals[in] = x.unop(st, fr, in)
	case *ssa.BinOp:
		v := x.binop(st, fr, in)
		if tv, ok := v.(TV); ok && tv.S == SInt && len(tv.E) > 400 {
			// name big arithmetic results: nested wrap-around terms otherwise double with every operation
			v = TV{SInt, st.nameTerm(SInt, tv.E)}
		}
		fr.vals[in] = v
	case *ssa.FieldAddr:
		p, ok := x.get(st, fr, in.X).(PtrV)
		if !ok {
			st.kill("FieldAddr on non-pointer")
			return
		}
		x.nilCheck(st, fr, p, in)
		pointee := in.X.Type().Underlying().(*types.Pointer).Elem()
		stt := pointee.Underlying().(*types.Struct)
		fi := in.Field
		if d := x.w.DTByName(x.w.SortOf(pointee)); d != nil {
			fi = d.GoField(in.Field)
		}
		if fi < 0 {
			// unexported field of a library struct: not modelled
			c := st.newCell("hidden", stt.Field(in.Field).Type(), nil)
			st.cells[c] = x.symVal(st, "hidden", stt.Field(in.Field).Type())
			fr.vals[in] = PtrV{Cell: c, Elem: stt.Field(in.Field).Type()}
			return
		}
		np := p
		np.Path = append(append([]PathEl(nil), p.Path...), PathEl{Field: fi})
		np.Elem = stt.Field(in.Field).Type()
		fr.vals[in] = np
	case *ssa.Field:
		tv := x.tv(st, fr, in.X)
		d := x.w.DTByName(tv.S)
		if d == nil {
			st.kill("Field on opaque struct " + in.X.Type().String())
			fr.vals[in] = x.symVal(st, "field", in.Type())
			return
		}
		fi := d.GoField(in.Field)
		if fi < 0 {
			fr.vals[in] = x.symVal(st, "hidden", in.Type())
			return
		}
		fr.vals[in] = x.fromTV(st, TV{d.Fields[fi].Sort, d.Get(fi, tv.E)}, in.Type())
	case *ssa.IndexAddr:
		fr.vals[in] = x.indexAddr(st, fr, in)
	case *ssa.Index:
		tv := x.tv(st, fr, in.X)
		idx := x.tv(st, fr, in.Index).E
		ln := x.lenOf(st, tv, in.X.Type())
		x.safe(st, fr, "index", tAnd(tCmp("<=", "0", idx), tCmp("<", idx, ln)), in)
		fr.vals[in] = x.fromTV(st, TV{x.w.ElemSort(tv.S), sIdx(tv.S, tv.E, idx)}, in.Type())
	case *ssa.Slice:
		fr.vals[in] = x.slice(st, fr, in)
	case *ssa.MakeSlice:
		fr.vals[in] = x.makeSlice(st, fr, in)
	case *ssa.MakeInterface:
		v := x.get(st, fr, in.X)
		if isErrorType(in.Type()) {
			// a concrete error value: a fresh non-nil class per dynamic type
			fr.vals[in] = ErrV{Class: num(x.errClassOf("type:" + typeKey(in.X.Type()))), Wrapped: "false"}
			return
		}
		iv := IfaceV{Dyn: in.X.Type(), Payload: v, Static: in.Type()}
		fr.vals[in] = iv
		if p, ok := v.(PtrV); ok && p.Ref != "" && len(p.Path) == 0 && !p.Nil {
			// what the object serves as a positional reader is fixed by its state now
			x.ifaceStored(st, iv, p)
		}
	case *ssa.ChangeInterface:
		fr.vals[in] = x.get(st, fr, in.X)
	case *ssa.ChangeType:
		v := x.get(st, fr, in.X)
		if p, ok := v.(PtrV); ok {
			if pt, ok := in.Type().Underlying().(*types.Pointer); ok {
				p.Elem = pt.Elem()
				if p.Ref != "" && len(p.Path) == 0 {
					p.RootSort = x.w.SortOf(pt.Elem())
				}
			}
			v = p
		}
		fr.vals[in] = v
	case *ssa.Convert:
		fr.vals[in] = x.convert(st, fr, in)
	case *ssa.MakeClosure:
		c := ClosureV{Fn: in.Fn.(*ssa.Function)}
		for _, b := range in.Bindings {
			c.Bind = append(c.Bind, x.get(st, fr, b))
		}
		fr.vals[in] = c
	case *ssa.Extract:
		t, ok := x.get(st, fr, in.Tuple).(TupleV)
		if !ok || in.Index >= len(t) {
			st.kill("extract from non-tuple")
			fr.vals[in] = x.symVal(st, "extract", in.Type())
			return
		}
		fr.vals[in] = t[in.Index]
	case *ssa.Lookup:
		fr.vals[in] = x.lookup(st, fr, in)
	case *ssa.TypeAssert:
		fr.vals[in] = x.typeAssert(st, fr, in)
	case *ssa.Phi:
		// handled in enter
	case *ssa.DebugRef:
		if id, ok := in.Expr.(*ast.Ident); ok {
			if fr.names == nil {
				fr.names = map[string]nameRef{}
			}
			fr.names[id.Name] = nameRef{v: in.X, addr: in.IsAddr}
		}
	case *ssa.MakeMap:
		fr.vals[in] = OpaqueV{"map"}
		x.note("MakeMap (out of subset)")
	case *ssa.MapUpdate, *ssa.Range, *ssa.Next:
		st.kill("map iteration/update (out of subset)")
	case *ssa.SliceToArrayPointer:
		st.kill("slice to array pointer (out of subset)")
	default:
		st.kill(fmt.Sprintf("unsupported instruction %T", instr))
	}
}

func (x *Exec) unop(st *State, fr *Frame, in *ssa.UnOp) Val {
	switch in.Op {
	case token.MUL:
		if g, ok := in.X.(*ssa.Global); ok {
			return x.globalLoad(st, g)
		}
		p, ok := x.get(st, fr, in.X).(PtrV)
		if !ok {
			st.kill("load through non-pointer")
			return x.symVal(st, "load", in.Type())
		}
		x.nilCheck(st, fr, p, in)
		return x.load(st, p)
	case token.NOT:
		return TV{SBool, tNot(x.tv(st, fr, in.X).E)}
	case token.SUB:
		r, _ := intRangeOf(in.Type())
		return TV{SInt, r.wrap1(tNeg(x.tv(st, fr, in.X).E))}
	case token.XOR:
		r, ok := intRangeOf(in.Type())
		v := x.tv(st, fr, in.X).E
		if !ok {
			return x.symVal(st, "xor", in.Type())
		}
		if r.signed {
			return TV{SInt, tSub(tNeg(v), "1")}
		}
		return TV{SInt, tSub(numLit(r.hi), v)}
	}
	st.kill("unsupported unary op " + in.Op.String())
	return x.symVal(st, "unop", in.Type())
}

func (x *Exec) indexAddr(st *State, fr *Frame, in *ssa.IndexAddr) Val {
	base := x.get(st, fr, in.X)
	idx := x.tv(st, fr, in.Index).E
	var elem types.Type
	switch u := in.X.Type().Underlying().(type) {
	case *types.Pointer:
		elem = u.Elem().Underlying().(*types.Array).Elem()
	case *types.Slice:
		elem = u.Elem()
	}
	switch b := base.(type) {
	case PtrV: // pointer to array
		x.nilCheck(st, fr, b, in)
		n := in.X.Type().Underlying().(*types.Pointer).Elem().Underlying().(*types.Array).Len()
		x.safe(st, fr, "index", tAnd(tCmp("<=", "0", idx), tCmp("<", idx, num(n))), in)
		np := b
		np.Path = append(append([]PathEl(nil), b.Path...), PathEl{IsIdx: true, Idx: idx})
		np.Elem = elem
		return np
	case SliceV:
		ln := tSub(b.Hi, b.Lo)
		x.safe(st, fr, "index", tAnd(tCmp("<=", "0", idx), tCmp("<", idx, ln)), in)
		return PtrV{Cell: b.Cell, Path: []PathEl{{IsIdx: true, Idx: tAdd(b.Lo, idx)}}, Elem: elem}
	case TV:
		x.safe(st, fr, "index", tAnd(tCmp("<=", "0", idx), tCmp("<", idx, sLen(b.S, b.E))), in)
		tv := b
		return PtrV{Imm: &tv, Path: []PathEl{{IsIdx: true, Idx: idx}}, Elem: elem}
	case nil:
		x.safe(st, fr, "index", "false", in)
		st.kill("index of nil slice")
	}
	st.kill(fmt.Sprintf("IndexAddr on %T", base))
	return PtrV{Nil: true, Elem: elem}
}

func (x *Exec) slice(st *State, fr *Frame, in *ssa.Slice) Val {
	base := x.get(st, fr, in.X)
	lo := "0"
	if in.Low != nil {
		lo = x.tv(st, fr, in.Low).E
	}
	getHi := func(def string) string {
		if in.High != nil {
			return x.tv(st, fr, in.High).E
		}
		return def
	}
	switch b := base.(type) {
	case PtrV: // slicing an array through its address
		at := in.X.Type().Underlying().(*types.Pointer).Elem().Underlying().(*types.Array)
		x.nilCheck(st, fr, b, in)
		n := num(at.Len())
		hi := getHi(n)
		x.safe(st, fr, "slice", tAnd(tCmp("<=", "0", lo), tCmp("<=", lo, hi), tCmp("<=", hi, n)), in)
		if b.Cell != nil && len(b.Path) == 0 {
			return SliceV{Cell: b.Cell, Lo: lo, Hi: hi}
		}
		// array embedded in a struct / heap object: value view
		v := x.load(st, b)
		tv := x.toTV(st, v, at)
		if lo == "0" && hi == n {
			return tv
		}
		return TV{tv.S, sSl(tv.S, tv.E, lo, hi)}
	case SliceV:
		capT := tSub(x.cellLen(st, b.Cell), b.Lo)
		hi := getHi(tSub(b.Hi, b.Lo))
		x.safe(st, fr, "slice", tAnd(tCmp("<=", "0", lo), tCmp("<=", lo, hi), tCmp("<=", hi, capT)), in)
		return SliceV{Cell: b.Cell, Lo: tAdd(b.Lo, lo), Hi: tAdd(b.Lo, hi)}
	case TV:
		ln := sLen(b.S, b.E)
		hi := getHi(ln)
		x.safe(st, fr, "slice", tAnd(tCmp("<=", "0", lo), tCmp("<=", lo, hi), tCmp("<=", hi, ln)), in)
		st.assume(tAnd(tCmp("<=", "0", lo), tCmp("<=", lo, hi), tCmp("<=", hi, ln)))
		if lo == "0" && hi == ln {
			return b
		}
		return TV{b.S, sSl(b.S, b.E, lo, hi)}
	case nil:
		return base
	}
	st.kill(fmt.Sprintf("Slice on %T", base))
	return x.symVal(st, "slice", in.Type())
}

func (x *Exec) makeSlice(st *State, fr *Frame, in *ssa.MakeSlice) Val {
	ln := x.tv(st, fr, in.Len).E
	cp := x.tv(st, fr, in.Cap).E
	et := in.Type().Underlying().(*types.Slice).Elem()
	x.safe(st, fr, "make", tAnd(tCmp("<=", "0", ln), tCmp("<=", ln, cp)), in)
	// allocation proportional to the input: cap*elemsize <= 4096 + 16*inputsize
	if x.inputSize != "" && fr.parent == nil || x.inputSize != "" {
		esz := sizeofApprox(et)
		bound := tAdd("4096", tMulC("16", x.inputSize))
		x.oblige(st, fr, x.ordinal(fr.fn, in, "safe.alloc"), "safe.alloc", "", tCmp("<=", tMulC(num(esz), cp), bound), in,
			map[string]string{"amplify": tCmp(">", tMulC(num(esz), cp), tAdd(bound, "4000000"))})
	}
	st.assume(tAnd(tCmp("<=", "0", ln), tCmp("<=", ln, cp)))
	sort := x.w.SeqSort(x.w.SortOf(et))
	if !smtFaithful(et) {
		if n, ok := isNum(cp); ok && n.Int64() < 64 {
			a := ArrV{}
			for i := int64(0); i < n.Int64(); i++ {
				a.Elems = append(a.Elems, x.zeroVal(st, et))
			}
			c := st.newCell("make", types.NewArray(et, n.Int64()), a)
			return SliceV{Cell: c, Lo: "0", Hi: ln}
		}
	}
	c := st.newCell("make", in.Type(), TV{sort, sConst(sort, cp, x.zeroTerm(et))})
	st.ghost[fmt.Sprintf("len:%d", c.id)] = TV{SInt, cp}
	return SliceV{Cell: c, Lo: "0", Hi: ln}
}

func sizeofApprox(t types.Type) int64 {
	switch u := t.Underlying().(type) {
	case *types.Basic:
		if r, ok := rangeOfBasic(u); ok {
			return int64(r.bits / 8)
		}
		return 16
	case *types.Struct:
		var s int64
		for i := 0; i < u.NumFields(); i++ {
			s += sizeofApprox(u.Field(i).Type())
		}
		return s
	case *types.Array:
		return u.Len() * sizeofApprox(u.Elem())
	case *types.Slice:
		return 24
	}
	return 8
}

func (x *Exec) convert(st *State, fr *Frame, in *ssa.Convert) Val {
	v := x.get(st, fr, in.X)
	from, to := in.X.Type(), in.Type()
	fr1, okf := intRangeOf(from)
	tr, okt := intRangeOf(to)
	switch {
	case okf && okt:
		tv := x.toTV(st, v, from)
		if tr.contains(fr1) {
			return tv
		}
		return TV{SInt, tr.wrap(tv.E)}
	}
	// string <-> []byte, named slices
	_, fs := from.Underlying().(*types.Slice)
	_, ts := to.Underlying().(*types.Slice)
	fstr := isString(from)
	tstr := isString(to)
	if (fs || fstr) && (ts || tstr) {
		s, e := x.seqOf(st, v, from)
		return TV{s, e}
	}
	if okf && tstr {
		r := x.freshBytes(st, "runestr")
		return TV{SSeqI, r}
	}
	if p, ok := v.(PtrV); ok {
		return p
	}
	x.note("unmodelled conversion " + from.String() + " -> " + to.String())
	return x.symVal(st, "conv", to)
}

func isString(t types.Type) bool {
	b, ok := t.Underlying().(*types.Basic)
	return ok && b.Info()&types.IsString != 0
}

func (x *Exec) typeAssert(st *State, fr *Frame, in *ssa.TypeAssert) Val {
	v := x.get(st, fr, in.X)
	iv, _ := v.(IfaceV)
	if iv.Sym == "" {
		ok := iv.Dyn != nil && types.Identical(iv.Dyn, in.AssertedType)
		if iv.Dyn != nil && isInterface(in.AssertedType) {
			ok = types.Implements(iv.Dyn, in.AssertedType.Underlying().(*types.Interface))
		}
		var res Val
		if ok {
			if isInterface(in.AssertedType) {
				res = iv
			} else {
				res = iv.Payload
			}
		} else {
			res = x.zeroVal(st, in.AssertedType)
		}
		if in.CommaOk {
			return TupleV{res, TV{SBool, tBool(ok)}}
		}
		if !ok {
			x.safe(st, fr, "assert", "false", in)
			st.kill("panic")
		}
		return res
	}
	// symbolic interface
	dynDecl(x)
	okT := tEq(app("g_dyn", iv.Sym), num(x.typeTag(in.AssertedType)))
	if isInterface(in.AssertedType) {
		okT = st.fresh("implements", SBool)
	}
	res := x.symValForIface(st, iv, in.AssertedType)
	if in.CommaOk {
		return TupleV{res, TV{SBool, okT}}
	}
	x.safe(st, fr, "assert", okT, in)
	st.assume(okT)
	return res
}

// symValForIface: the payload of a symbolic interface asserted to type t.
func (x *Exec) symValForIface(st *State, iv IfaceV, t types.Type) Val {
	if isInterface(t) {
		return IfaceV{Sym: iv.Sym, Static: t}
	}
	if pt, ok := t.Underlying().(*types.Pointer); ok && isStructLike(pt.Elem()) {
		// payload identity = interface identity
		return PtrV{Ref: iv.Sym, RootSort: x.w.SortOf(pt.Elem()), Elem: pt.Elem()}
	}
	return x.symVal(st, "asserted", t)
}

func (x *Exec) lookup(st *State, fr *Frame, in *ssa.Lookup) Val {
	base := x.get(st, fr, in.X)
	if isString(in.X.Type()) {
		tv := x.toTV(st, base, in.X.Type())
		idx := x.tv(st, fr, in.Index).E
		x.safe(st, fr, "index", tAnd(tCmp("<=", "0", idx), tCmp("<", idx, sLen(tv.S, tv.E))), in)
		return x.fromTV(st, TV{SInt, sIdx(tv.S, tv.E, idx)}, types.Typ[types.Uint8])
	}
	mt := in.X.Type().Underlying().(*types.Map)
	mv, ok := base.(MapV)
	var res Val
	okT := st.fresh("mapok", SBool)
	if ok {
		entries := x.mapEntries(st, mv.Global)
		if entries != nil {
			key := x.tv(st, fr, in.Index)
			resT := x.zeroTerm(mt.Elem())
			found := "false"
			for i := len(entries) - 1; i >= 0; i-- {
				e := entries[i]
				c := tEq(key.E, e.key)
				resT = tIte(c, e.val, resT)
				found = tOr(c, found)
			}
			res = x.fromTV(st, TV{x.w.SortOf(mt.Elem()), resT}, mt.Elem())
			okT = found
		}
	}
	if res == nil {
		x.note("lookup in unmodelled map " + in.X.Name())
		res = x.symVal(st, "mapval", mt.Elem())
	}
	if in.CommaOk {
		return TupleV{res, TV{SBool, okT}}
	}
	return res
}

// ---------------------------------------------------------------------------
// arithmetic

func (x *Exec) binop(st *State, fr *Frame, in *ssa.BinOp) Val {
	xt := in.X.Type()
	a := x.get(st, fr, in.X)
	b := x.get(st, fr, in.Y)
	switch in.Op {
	case token.EQL, token.NEQ:
		eq := x.equal(st, a, b, xt)
		if in.Op == token.NEQ {
			eq = tNot(eq)
		}
		return TV{SBool, eq}
	}
	if _, ok := xt.Underlying().(*types.Basic); !ok {
		st.kill("binop on " + xt.String())
		return x.symVal(st, "binop", in.Type())
	}
	at := x.toTV(st, a, xt)
	bt := x.toTV(st, b, in.Y.Type())
	if at.S == SBool {
		switch in.Op {
		case token.LAND, token.AND:
			return TV{SBool, tAnd(at.E, bt.E)}
		case token.LOR, token.OR:
			return TV{SBool, tOr(at.E, bt.E)}
		}
	}
	if isString(xt) {
		switch in.Op {
		case token.ADD:
			return TV{SSeqI, sApp(SSeqI, at.E, bt.E)}
		}
		x.note("string comparison modelled as unknown")
		return TV{SBool, st.fresh("strcmp", SBool)}
	}
	r, ok := intRangeOf(xt)
	if !ok {
		x.note("non-integer arithmetic on " + xt.String())
		return x.symVal(st, "arith", in.Type())
	}
	switch in.Op {
	case token.LSS:
		return TV{SBool, tCmp("<", at.E, bt.E)}
	case token.LEQ:
		return TV{SBool, tCmp("<=", at.E, bt.E)}
	case token.GTR:
		return TV{SBool, tCmp(">", at.E, bt.E)}
	case token.GEQ:
		return TV{SBool, tCmp(">=", at.E, bt.E)}
	case token.ADD:
		return TV{SInt, r.wrap1(tAdd(at.E, bt.E))}
	case token.SUB:
		return TV{SInt, r.wrap1(tSub(at.E, bt.E))}
	case token.MUL:
		return TV{SInt, r.wrap(tMulC(at.E, bt.E))}
	case token.QUO, token.REM:
		x.safe(st, fr, "div", tNot(tEq(bt.E, "0")), in)
		st.assume(tNot(tEq(bt.E, "0")))
		if d, ok := isNum(bt.E); ok && d.Sign() > 0 {
			if !r.signed {
				if in.Op == token.QUO {
					return TV{SInt, tDivC(at.E, d)}
				}
				return TV{SInt, tModC(at.E, d)}
			}
			// signed: truncated division
			q := tIte(tCmp(">=", at.E, "0"), tDivC(at.E, d), tNeg(tDivC(tNeg(at.E), d)))
			if in.Op == token.QUO {
				return TV{SInt, q}
			}
			return TV{SInt, tSub(at.E, tMulC(numLit(d), q))}
		}
		if !r.signed {
			if in.Op == token.QUO {
				return TV{SInt, app("div", at.E, bt.E)}
			}
			return TV{SInt, app("mod", at.E, bt.E)}
		}
		// signed: Go truncates toward zero
		abs := func(t string) string { return tIte(tCmp(">=", t, "0"), t, tNeg(t)) }
		qa := app("div", abs(at.E), abs(bt.E))
		sameSign := tEq(tCmp(">=", at.E, "0"), tCmp(">", bt.E, "0"))
		q := tIte(sameSign, qa, tNeg(qa))
		if in.Op == token.QUO {
			return TV{SInt, r.wrap1(q)}
		}
		return TV{SInt, tSub(at.E, app("*", bt.E, q))}
	case token.SHL:
		if k, ok := isNum(bt.E); ok && k.IsInt64() && k.Int64() < 64 {
			return TV{SInt, r.wrap(tMulC(at.E, numLit(pow2(uint(k.Int64())))))}
		}
	case token.SHR:
		if k, ok := isNum(bt.E); ok && k.IsInt64() && k.Int64() < 64 {
			return TV{SInt, tDivC(at.E, pow2(uint(k.Int64())))}
		}
	case token.AND, token.AND_NOT, token.OR, token.XOR:
		return TV{SInt, x.bitop(st, in.Op, at.E, bt.E, r)}
	}
	x.note("unmodelled binary operator " + in.Op.String())
	res := st.fresh("binop", SInt)
	st.assume(r.inRange(res))
	return TV{SInt, res}
}

// bitop models bitwise operations exactly when one operand is a constant.
func (x *Exec) bitop(st *State, op token.Token, a, b string, r intRange) string {
	ca, oka := isNum(a)
	cb, okb := isNum(b)
	if oka && okb {
		m := pow2(r.bits)
		ua := new(bigInt).Mod(ca, m)
		ub := new(bigInt).Mod(cb, m)
		res := new(bigInt)
		switch op {
		case token.AND:
			res.And(ua, ub)
		case token.OR:
			res.Or(ua, ub)
		case token.XOR:
			res.Xor(ua, ub)
		case token.AND_NOT:
			res.AndNot(ua, ub)
		}
		return r.wrap(numLit(res))
	}
	if oka && !okb && op != token.AND_NOT {
		a, b, ca, cb, oka, okb = b, a, cb, ca, okb, oka
	}
	if okb {
		m := new(bigInt).Mod(cb, pow2(r.bits)) // mask as unsigned bit pattern
		andMask := func(mask *bigInt) string { // a & mask
			if mask.Sign() == 0 {
				return "0"
			}
			// contiguous low mask 2^k-1
			k := uint(mask.BitLen())
			if new(bigInt).Sub(pow2(k), bigOne).Cmp(mask) == 0 {
				return tModC(a, pow2(k))
			}
			if k == r.bits && r.signed {
				// mask with sign bit set: fall through to per-bit sum on unsigned pattern
			}
			var terms []string
			for i := 0; i < mask.BitLen(); i++ {
				if mask.Bit(i) == 1 {
					bit := tModC(tDivC(a, pow2(uint(i))), big2)
					terms = append(terms, tMulC(numLit(pow2(uint(i))), bit))
				}
			}
			s := "0"
			for _, t := range terms {
				s = tAdd(s, t)
			}
			return s
		}
		switch op {
		case token.AND:
			res := andMask(m)
			if r.signed {
				return r.wrap(res)
			}
			return res
		case token.AND_NOT:
			// a &^ m = a - (a & m)   (two's complement, floor semantics)
			return tSub(a, andMask(m))
		case token.OR:
			return r.wrap(tSub(tAdd(a, numLit(m)), andMask(m)))
		case token.XOR:
			return r.wrap(tSub(tAdd(a, numLit(m)), tMulC("2", andMask(m))))
		}
	}
	fn := map[token.Token]string{token.AND: "g_band", token.OR: "g_bor", token.XOR: "g_bxor"}[op]
	if op == token.AND_NOT {
		// a &^ b = a - (a & b)
		return tSub(a, app("g_band", a, b))
	}
	x.note("bitwise operation on two symbolic operands (axiomatised)")
	return app(fn, a, b)
}

// equal builds the equality of two values of static type t.
func (x *Exec) equal(st *State, a, b Val, t types.Type) string {
	switch av := a.(type) {
	case ErrV:
		bv, ok := b.(ErrV)
		if !ok {
			return st.fresh("eq", SBool)
		}
		if av.Class == "0" || bv.Class == "0" {
			return tEq(av.Class, bv.Class)
		}
		// identity comparison with a sentinel: same class and not wrapped
		return tAnd(tEq(av.Class, bv.Class), tNot(av.Wrapped), tNot(bv.Wrapped))
	case PtrV:
		bv, ok := b.(PtrV)
		if !ok {
			return st.fresh("eq", SBool)
		}
		return x.ptrEq(st, av, bv)
	case IfaceV:
		bv, _ := b.(IfaceV)
		return x.ifaceEq(st, av, bv)
	case ClosureV:
		bv, _ := b.(ClosureV)
		return tBool(av.Fn == nil && bv.Fn == nil)
	case OpaqueV:
		return st.fresh("eq", SBool)
	}
	at := x.toTV(st, a, t)
	bt := x.toTV(st, b, t)
	return tEq(at.E, bt.E)
}

func (x *Exec) ptrEq(st *State, a, b PtrV) string {
	if a.Nil && b.Nil {
		return "true"
	}
	if a.Nil {
		a, b = b, a
	}
	if b.Nil {
		if a.Ref != "" && len(a.Path) == 0 {
			if x.knownNonNil(st, a.Ref) {
				return "false"
			}
			return tEq(a.Ref, "0")
		}
		return "false"
	}
	if a.Ref != "" && b.Ref != "" && len(a.Path) == 0 && len(b.Path) == 0 {
		return tEq(a.Ref, b.Ref)
	}
	if a.Cell != nil && b.Cell != nil {
		return tBool(a.Cell == b.Cell && len(a.Path) == 0 && len(b.Path) == 0)
	}
	return st.fresh("ptreq", SBool)
}

func (x *Exec) ifaceEq(st *State, a, b IfaceV) string {
	nilA := a.Sym == "" && a.Dyn == nil
	nilB := b.Sym == "" && b.Dyn == nil
	switch {
	case nilA && nilB:
		return "true"
	case nilA && b.Sym != "":
		return tEq(b.Sym, "0")
	case nilB && a.Sym != "":
		return tEq(a.Sym, "0")
	case nilA || nilB:
		return "false"
	case a.Sym != "" && b.Sym != "":
		return tEq(a.Sym, b.Sym)
	}
	return st.fresh("ifaceeq", SBool)
}

// ---------------------------------------------------------------------------
// loops

type Loop struct {
	header  *ssa.BasicBlock
	body    map[*ssa.BasicBlock]bool
	ordinal int
	unroll  bool
	rangeIdx *ssa.Phi // index phi for rangeindex loops
	rangeLen ssa.Value
}

type LoopInfo struct {
	byHeader map[*ssa.BasicBlock]*Loop
	list     []*Loop
}

func (x *Exec) loopInfo(fn *ssa.Function) *LoopInfo {
	if li, ok := x.loops[fn]; ok {
		return li
	}
	li := &LoopInfo{byHeader: map[*ssa.BasicBlock]*Loop{}}
	for _, b := range fn.Blocks {
		for _, s := range b.Succs {
			if s.Dominates(b) { // back edge b -> s
				lp := li.byHeader[s]
				if lp == nil {
					lp = &Loop{header: s, body: map[*ssa.BasicBlock]bool{s: true}}
					li.byHeader[s] = lp
					li.list = append(li.list, lp)
				}
				// natural loop: nodes reaching b without passing s
				var stack []*ssa.BasicBlock
				if !lp.body[b] {
					lp.body[b] = true
					stack = append(stack, b)
				}
				for len(stack) > 0 {
					n := stack[len(stack)-1]
					stack = stack[:len(stack)-1]
					for _, p := range n.Preds {
						if !lp.body[p] {
							lp.body[p] = true
							stack = append(stack, p)
						}
					}
				}
			}
		}
	}
	sort.Slice(li.list, func(i, j int) bool { return li.list[i].header.Index < li.list[j].header.Index })
	for i, lp := range li.list {
		lp.ordinal = i + 1
		// rangeindex pattern
		if lp.header.Comment == "rangeindex.loop" && len(lp.header.Instrs) >= 3 {
			var ph *ssa.Phi
			for _, hin := range lp.header.Instrs {
				if p2, ok := hin.(*ssa.Phi); ok && p2.Comment == "rangeindex" {
					ph = p2
				}
			}
			if ph != nil {
				lp.rangeIdx = ph
				for _, in := range lp.header.Instrs {
					if bo, ok := in.(*ssa.BinOp); ok && bo.Op == token.LSS {
						lp.rangeLen = bo.Y
					}
				}
				// literal-bounded: len of a slice of a local array literal
				if call, ok := lp.rangeLen.(*ssa.Call); ok {
					if bi, ok := call.Call.Value.(*ssa.Builtin); ok && bi.Name() == "len" {
						if sl, ok := call.Call.Args[0].(*ssa.Slice); ok {
							if _, ok := sl.X.(*ssa.Alloc); ok {
								lp.unroll = true
							}
						}
					}
				}
				if _, ok := lp.rangeLen.(*ssa.Const); ok {
					lp.unroll = true
				}
			}
		}
	}
	x.loops[fn] = li
	return li
}

// modifiedInLoop: cells and heaps that the loop body may write.
func (x *Exec) loopHavoc(st *State, fr *Frame, lp *Loop) {
	// conservative: every cell stored to in the loop (resolved dynamically by
	// current pointer values), every heap sort written, all ghost reader state
	// touched by calls. We walk instructions and use current frame values for
	// addresses defined outside the loop; anything else havocs all cells.
	havocAllHeaps := false
	cellSet := map[*Cell]bool{}
	heapSet := map[string]bool{}
	allCells := false
	var rootOf func(v ssa.Value) (Val, bool)
	rootOf = func(v ssa.Value) (Val, bool) {
		if val, ok := fr.vals[v]; ok {
			return val, true
		}
		switch a := v.(type) {
		case *ssa.FieldAddr:
			return rootOf(a.X)
		case *ssa.IndexAddr:
			return rootOf(a.X)
		case *ssa.Alloc:
			return nil, false
		}
		return nil, false
	}
	markPtr := func(v ssa.Value) {
		val, ok := rootOf(v)
		if !ok {
			// address computed inside the loop from unknown root: by type
			if _, ok := v.Type().Underlying().(*types.Pointer); ok {
				root := rootStructOf(v)
				if root != nil && isStructLike(root) {
					return // heap effects come from the static effect analysis
				}
			}
			// a loop-local alloc needs no havoc (fresh each iteration)
			if isLoopLocal(v, lp) {
				return
			}
			allCells = true
			return
		}
		switch p := val.(type) {
		case PtrV:
			if p.Cell != nil {
				cellSet[p.Cell] = true
			}
		case SliceV:
			cellSet[p.Cell] = true
		}
	}
	ghostTouched := false
	for b := range lp.body {
		for _, in := range b.Instrs {
			switch i := in.(type) {
			case *ssa.Store:
				markPtr(i.Addr)
			case *ssa.Call:
				// an append inside the loop into the spare capacity of a shared backing array is a
				// write that states after the loop must still be charged with
				if bi, isB := i.Call.Value.(*ssa.Builtin); isB && bi.Name() == "append" && len(i.Call.Args) == 2 {
					if ref, rs, ok := x.sharedAppendBase(st, fr, i.Call.Args[0], map[ssa.Value]bool{}); ok {
						st.ghost["aliaswrite:"+rs+":"+ref] = TV{SBool, "true"}
					}
				}
				eff := x.callEffects(fr, i.Common())
				for _, a := range eff.ptrArgs {
					markPtr(a)
				}
				if eff.allCells {
					allCells = true
				}
			}
		}
	}
	f := x.loopEffects(fr.fn, lp)
	if os.Getenv("VFY_DEBUG_FX") != "" {
		fmt.Fprintf(os.Stderr, "loop %d of %s: full=%v targets=%v fresh=%v unknown=%v ghost=%v params=%v binds=%v\n", lp.ordinal, fr.fn.Name(), f.full, f.targets, f.fresh, f.unknown, f.ghost, f.params, f.binds)
	}
	ghostTouched = f.ghost || f.unknown
	havocAllHeaps = f.unknown
	for s := range f.full {
		heapSet[s] = true
	}
	// cells behind parameters / captured variables written by callees
	for i := range f.params {
		if i >= 0 && i < len(fr.fn.Params) {
			markPtr(fr.fn.Params[i])
		}
	}
	for i := range f.binds {
		if i < len(fr.fn.FreeVars) {
			markPtr(fr.fn.FreeVars[i])
		}
	}
	if allCells {
		for c := range st.cells {
			// package variables that are never stored to keep their initial value
			if strings.HasPrefix(c.name, "global:") && x.roGlobalCell(c) {
				continue
			}
			cellSet[c] = true
		}
	}
	for c := range cellSet {
		if st.frozen[c] {
			continue
		}
		old := st.cells[c]
		_, isBacking := st.ghost[fmt.Sprintf("len:%d", c.id)]
		x.keepLen = isBacking
		st.cells[c] = x.havocLike(st, c.name, c.typ, old)
		x.keepLen = false
	}
	if havocAllHeaps {
		for h := range st.heaps {
			heapSet[strings.TrimPrefix(h, "H_")] = true
		}
		for h := range x.w.heaps {
			heapSet[strings.TrimPrefix(h, "H_")] = true
		}
	}
	topAtEntry := st.top
	// sorts written only through nameable references and/or objects allocated in the loop
	partial := map[string]bool{}
	for s := range f.targets {
		partial[s] = true
	}
	for s := range f.fresh {
		partial[s] = true
	}
	for s := range partial {
		if heapSet[s] {
			continue
		}
		if strings.HasPrefix(s, "T_") && x.w.DTByName(s) == nil {
			continue
		}
		var refs []string
		okAll := true
		for _, tv := range f.targets[s] {
			val, ok := fr.vals[tv]
			pv, isPtr := val.(PtrV)
			if iv, isI := val.(IfaceV); isI && iv.Payload != nil {
				pv, isPtr = iv.Payload.(PtrV)
			}
			if !ok || !isPtr {
				okAll = false
				break
			}
			if pv.Cell != nil || pv.Nil {
				continue
			}
			if pv.Ref == "" {
				okAll = false
				break
			}
			refs = append(refs, pv.Ref)
		}
		if !okAll {
			heapSet[s] = true
			continue
		}
		oldH := st.heap(s)
		newH := st.havocHeap(s)
		x.freshN++
		r := fmt.Sprintf("q_r_%d", x.freshN)
		conds := []string{tCmp("<", r, topAtEntry)}
		for _, t := range refs {
			conds = append(conds, tNot(tEq(r, t)))
		}
		st.assume(fmt.Sprintf("(forall ((%s Int)) (! (=> %s (= (select %s %s) (select %s %s))) :pattern ((select %s %s))))", r, tAnd(conds...), newH, r, oldH, r, newH, r))
	}
	for s := range heapSet {
		if strings.HasPrefix(s, "T_") && x.w.DTByName(s) == nil {
			continue
		}
		st.havocHeap(s)
	}
	if ghostTouched {
		for k, v := range st.ghost {
			if strings.HasPrefix(k, "rem:") || strings.HasPrefix(k, "out:") {
				if tv, ok := v.(TV); ok {
					n := st.fresh("g"+sanitizeIdent(k), tv.S)
					if tv.S == SSeqI {
						st.assume(app("g_isbytes", n))
					}
					st.ghost[k] = TV{tv.S, n}
				}
			}
		}
	}
	if len(f.fresh) > 0 || len(f.full) > 0 || f.unknown {
		st.advanceTop()
	}
}

func isLoopLocal(v ssa.Value, lp *Loop) bool {
	switch a := v.(type) {
	case *ssa.Alloc:
		return lp.body[a.Block()]
	case *ssa.FieldAddr:
		return isLoopLocal(a.X, lp)
	case *ssa.IndexAddr:
		return isLoopLocal(a.X, lp)
	}
	return false
}

func rootStructOf(v ssa.Value) types.Type {
	switch a := v.(type) {
	case *ssa.FieldAddr:
		if r := rootStructOf(a.X); r != nil {
			return r
		}
		return a.X.Type().Underlying().(*types.Pointer).Elem()
	case *ssa.IndexAddr:
		return rootStructOf(a.X)
	}
	if pt, ok := v.Type().Underlying().(*types.Pointer); ok {
		return pt.Elem()
	}
	return nil
}

// havocLike replaces a value by an unconstrained one of the same shape.
func (x *Exec) havocLike(st *State, hint string, t types.Type, old Val) Val {
	switch o := old.(type) {
	case SliceV:
		// a loop-carried window: bounds become symbolic, the backing cell stays
		lo := st.fresh(hint+"_lo", SInt)
		hi := st.fresh(hint+"_hi", SInt)
		st.assume(tAnd(tCmp("<=", "0", lo), tCmp("<=", lo, hi), tCmp("<=", hi, x.cellLen(st, o.Cell))))
		return SliceV{Cell: o.Cell, Lo: lo, Hi: hi}
	case ArrV:
		n := ArrV{}
		for i, e := range o.Elems {
			var et types.Type
			if at, ok := t.Underlying().(*types.Array); ok {
				et = at.Elem()
			}
			if et == nil {
				n.Elems = append(n.Elems, e)
				continue
			}
			n.Elems = append(n.Elems, x.havocLike(st, fmt.Sprintf("%s_%d", hint, i), et, e))
		}
		return n
	case TV:
		if _, isSlice := t.Underlying().(*types.Slice); isSlice && x.keepLen {
			// backing array of a make: keep the length
			nv := st.fresh(hint, o.S)
			st.assume(tEq(sLen(o.S, nv), sLen(o.S, o.E)))
			if sl, ok := t.Underlying().(*types.Slice); ok && isByteElem(sl.Elem()) {
				st.assume(app("g_isbytes", nv))
			}
			return TV{o.S, nv}
		}
	case IfaceV:
		if o.Sym != "" || o.Dyn != nil {
			// interface variables captured by reference (e.g. the reader): keep identity
			return o
		}
	}
	return x.symVal(st, hint, t)
}

func (x *Exec) loopEntry(st *State, fr *Frame, lp *Loop, pv map[*ssa.Phi]Val) {
	fr.curLoop = lp
	defer func() { fr.curLoop = nil }()
	c := fr.contract
	name := fmt.Sprintf("loop%d", lp.ordinal)
	// 1. invariants hold on entry
	for ph, v := range pv {
		fr.vals[ph] = v
		x.bindPhiName(fr, ph)
	}
	var invs []*Clause
	var dec *Clause
	if c != nil {
		for _, cl := range c.Loops[lp.ordinal] {
			if cl.Kind == "invariant" {
				invs = append(invs, cl)
			} else if cl.Kind == "decreases" {
				dec = cl
			}
		}
	}
	for _, cl := range invs {
		g := x.evalClause(st, fr, cl, nil)
		x.oblige(st, fr, fmt.Sprintf("inv.%d.%s.init", lp.ordinal, cl.Label), "inv.init", cl.Label, g, nil, nil)
	}
	// 2. havoc
	x.loopHavoc(st, fr, lp)
	for _, in := range lp.header.Instrs {
		ph, ok := in.(*ssa.Phi)
		if !ok {
			break
		}
		if sv, isWin := pv[ph].(SliceV); isWin && !reslicedOnly(ph, lp) {
			// the loop may bind the variable to another backing array (append, make, a call
			// result): after any number of iterations it is some sequence, not a window
			// onto the array it started with
			_ = sv
			fr.vals[ph] = x.symVal(st, phiName(ph), ph.Type())
		} else {
			fr.vals[ph] = x.havocLike(st, phiName(ph), ph.Type(), pv[ph])
		}
		if _, isIface := fr.vals[ph].(IfaceV); isIface {
			fr.vals[ph] = pv[ph]
		}
		x.bindPhiName(fr, ph)
	}
	// 3. assume invariants (+ automatic range-loop bounds)
	if lp.rangeIdx != nil {
		i := x.toTV(st, fr.vals[lp.rangeIdx], lp.rangeIdx.Type()).E
		n := x.tv(st, fr, lp.rangeLen).E
		st.assume(tAnd(tCmp("<=", "(- 1)", i), tCmp("<", i, n)))
	}
	for _, cl := range invs {
		st.assume(x.evalAssume(st, fr, cl, nil))
	}
	cut := &loopCut{}
	if dec != nil {
		cut.variant = x.evalTerm(st, fr, dec, nil)
	} else if lp.rangeIdx != nil {
		i := x.toTV(st, fr.vals[lp.rangeIdx], lp.rangeIdx.Type()).E
		n := x.tv(st, fr, lp.rangeLen).E
		cut.variant = tSub(n, i)
	} else {
		// no variant: termination is not established
		x.oblige(st, fr, fmt.Sprintf("dec.%d.missing", lp.ordinal), "dec", "", "false", nil, map[string]string{"why": "loop has no decreases clause"})
	}
	if x.faulty {
		cut.failed = "false"
		if v, ok := st.ghost["failed:any"].(TV); ok {
			cut.failed = v.E
		}
	}
	// package-level variables as they are at the loop head: the loop body must hand them back
	// unchanged (they are not havocked here unless the body stores to them)
	cut.globals = map[*Cell]string{}
	for _, gc := range globalCells {
		if tv, ok := st.cells[gc].(TV); ok {
			cut.globals[gc] = tv.E
		}
	}
	// ghost state that is not havocked at a loop head (the event trace, the file store, the clock
	// readings, the last signature): the loop body must leave it as it is, see loopBack
	cut.ghosts = map[string]string{}
	for _, k := range cutGhostKeys {
		if tv, ok := st.ghost[k].(TV); ok {
			cut.ghosts[k] = tv.E
		} else {
			cut.ghosts[k] = ""
		}
	}
	fr.cutLoops[lp.ordinal] = cut
	// smoke: invariants are satisfiable together with the path
	x.smoke(st, fr, name+".inv")
	nphi := 0
	for _, in := range lp.header.Instrs {
		if _, ok := in.(*ssa.Phi); ok {
			nphi++
		}
	}
	x.runBlock(st, fr, lp.header, nphi)
}

// bindPhiName: after a phi is (re)assigned, the source variable it stands for
// currently has the phi's value.
func (x *Exec) bindPhiName(fr *Frame, ph *ssa.Phi) {
	if ph.Comment == "" || ph.Comment == "rangeindex" {
		return
	}
	if fr.names == nil {
		fr.names = map[string]nameRef{}
	}
	fr.names[ph.Comment] = nameRef{v: ph}
}

func phiName(ph *ssa.Phi) string {
	if ph.Comment != "" {
		return ph.Comment
	}
	return ph.Name()
}

func (x *Exec) loopBack(st *State, fr *Frame, lp *Loop, pv map[*ssa.Phi]Val) {
	cut := fr.cutLoops[lp.ordinal]
	if cut == nil {
		st.kill("back edge into a loop that was not entered through its header")
		x.pathEnd(st, fr)
		return
	}
	for ph, v := range pv {
		fr.vals[ph] = v
		x.bindPhiName(fr, ph)
	}
	fr.curLoop = lp
	defer func() { fr.curLoop = nil }()
	c := fr.contract
	if c != nil {
		for _, cl := range c.Loops[lp.ordinal] {
			if cl.Kind == "invariant" {
				g := x.evalClause(st, fr, cl, nil)
				x.oblige(st, fr, fmt.Sprintf("inv.%d.%s.step", lp.ordinal, cl.Label), "inv.step", cl.Label, g, nil, nil)
			}
		}
	}
	if x.faulty && cut.failed != "" {
		// fault mode: the failure flags are not havocked at the loop head, so no failure may be
		// carried around the loop - an iteration in which a dependency failed has to leave it
		now := "false"
		if v, ok := st.ghost["failed:any"].(TV); ok {
			now = v.E
		}
		x.oblige(st, fr, fmt.Sprintf("inv.%d.C15.nofail.step", lp.ordinal), "inv.step", "C15.nofail", tImp(now, cut.failed), nil, nil)
	}
	{
		var ids []int
		byID := map[int]*Cell{}
		for gc := range cut.globals {
			ids = append(ids, gc.id)
			byID[gc.id] = gc
		}
		sort.Ints(ids)
		for _, id := range ids {
			gc := byID[id]
			if cur, ok := st.cells[gc].(TV); ok && cur.E != cut.globals[gc] {
				x.oblige(st, fr, fmt.Sprintf("inv.%d.*.global.%s.step", lp.ordinal, sanitizeIdent(gc.name)), "inv.step", "*.cut.global", tEq(cut.globals[gc], cur.E), nil, nil)
			}
		}
		for _, g := range sortedGlobals() {
			gc := globalCells[g]
			if _, seen := cut.globals[gc]; seen {
				continue
			}
			// first touched inside the loop body: compare with the value it was given then
			init, ok1 := st.ghost[fmt.Sprintf("ginit:%d", gc.id)].(TV)
			cur, ok2 := st.cells[gc].(TV)
			if ok1 && ok2 && init.E != cur.E {
				x.oblige(st, fr, fmt.Sprintf("inv.%d.*.global.%s.step", lp.ordinal, sanitizeIdent(gc.name)), "inv.step", "*.cut.global", tEq(init.E, cur.E), nil, nil)
			}
		}
	}
	for _, k := range cutGhostKeys {
		head, known := cut.ghosts[k]
		if !known {
			continue
		}
		cur := ""
		if tv, ok := st.ghost[k].(TV); ok {
			cur = tv.E
		}
		if cur != head {
			g := "false" // first touched inside the loop body
			if head != "" && cur != "" {
				g = tEq(head, cur)
			}
			// part of every property that has this unit: what is proved behind the loop relies on it
			x.oblige(st, fr, fmt.Sprintf("inv.%d.*.ghost.%s.step", lp.ordinal, k), "inv.step", "*.cut.ghost."+k, g, nil, nil)
		}
	}
	if cut.variant != "" {
		var nv string
		var dec *Clause
		if c != nil {
			for _, cl := range c.Loops[lp.ordinal] {
				if cl.Kind == "decreases" {
					dec = cl
				}
			}
		}
		if dec != nil {
			nv = x.evalTerm(st, fr, dec, nil)
		} else if lp.rangeIdx != nil {
			i := x.toTV(st, fr.vals[lp.rangeIdx], lp.rangeIdx.Type()).E
			n := x.tv(st, fr, lp.rangeLen).E
			nv = tSub(n, i)
		}
		if nv != "" {
			x.oblige(st, fr, fmt.Sprintf("dec.%d", lp.ordinal), "dec", "", tAnd(tCmp("<", nv, cut.variant), tCmp("<=", "0", cut.variant)), nil, nil)
		}
	}
	st.kill("loop back edge")
	x.pathEnd(st, fr)
}

// smoke records a vacuity check: the current assumptions must not be unsat.
func (x *Exec) smoke(st *State, fr *Frame, name string) {
	q := &Query{Unit: fnName(x.unit), Name: fnName(x.unit) + "#smoke." + fr.prefix + name, Kind: "smoke", Goal: "false",
		Decls: st.decls.slice(), Assumes: st.assumes.slice(), PathID: x.pathN, Smoke: true}
	x.queries = append(x.queries, q)
}

// reslicedOnly reports whether every value the phi receives from inside the loop is the
// phi itself, resliced (p = p[n:], p = p[:k]): only then does it stay a window onto the
// same backing array.
func reslicedOnly(ph *ssa.Phi, lp *Loop) bool {
	inLoop := func(b *ssa.BasicBlock) bool { return lp.body[b] || b == lp.header }
	var derives func(v ssa.Value, seen map[ssa.Value]bool) bool
	derives = func(v ssa.Value, seen map[ssa.Value]bool) bool {
		if v == ph {
			return true
		}
		if seen[v] {
			return true
		}
		seen[v] = true
		switch u := v.(type) {
		case *ssa.Slice:
			return derives(u.X, seen)
		case *ssa.Phi:
			if !inLoop(u.Block()) {
				return false
			}
			for _, e := range u.Edges {
				if !derives(e, seen) {
					return false
				}
			}
			return true
		}
		return false
	}
	for i, e := range ph.Edges {
		pred := ph.Block().Preds[i]
		if !inLoop(pred) {
			continue // entry edge
		}
		if !derives(e, map[ssa.Value]bool{}) {
			return false
		}
	}
	return true
}

// roGlobalCell reports whether the cell stands for a package variable that no code stores to.
func (x *Exec) roGlobalCell(c *Cell) bool {
	for g, gc := range globalCells {
		if gc == c {
			return x.globalsRO[g]
		}
	}
	return false
}

func sortedGlobals() []*ssa.Global {
	var gs []*ssa.Global
	for g := range globalCells {
		gs = append(gs, g)
	}
	sort.Slice(gs, func(i, j int) bool { return gs[i].String() < gs[j].String() })
	return gs
}
