package main

import (
	"bytes"
	"context"
	"fmt"
	"os"
	"os/exec"
	"path/filepath"
	"strings"
	"sync"
	"time"
)

// noPrune switches the relevance pruning of the prelude off (VFY_NOPRUNE=1, for comparison runs).
var noPrune = os.Getenv("VFY_NOPRUNE") != ""

type Result struct {
	Q        *Query
	Answer   string // unsat | sat | unknown | timeout | error
	Backend  string
	Seconds  float64
	Model    string
	Output   string
	QFAnswer string
	QFModel  string
	Retried  bool // timed out in the parallel pass and was run again
}

func (x *Exec) script(q *Query, quant bool, z3 bool, model bool) string {
	var b strings.Builder
	if z3 {
		b.WriteString("(set-option :auto_config false)\n(set-option :smt.mbqi false)\n")
		if model {
			b.WriteString("(set-option :model.completion true)\n")
		}
	} else {
		b.WriteString("(set-option :produce-models true)\n(set-logic ALL)\n")
	}
	viewDecl(x)
	spec := x.specText(quant) // may register sorts: before the prelude is printed
	var pre strings.Builder
	pre.WriteString(x.w.Prelude(quant))
	pre.WriteString(codecPrelude(quant))
	pre.WriteString(derPrelude(quant))
	pre.WriteString(fmtPrelude(quant))
	pre.WriteString(cryptoPrelude())
	pre.WriteString(timePrelude())
	pre.WriteString(pePrelude(x, quant))
	if quant {
		pre.WriteString(cryptoPreludeQ())
		pre.WriteString(timePreludeQ())
	}
	for _, sp := range spec {
		pre.WriteString(sp)
	}
	if quant {
		pre.WriteString(utf16Axioms())
		if !isLemmaUnit(q.Unit) {
			pre.WriteString(x.lemmaAxiomText())
		}
	}
	var body strings.Builder
	for _, d := range q.Decls {
		body.WriteString(d)
		body.WriteString("\n")
	}
	for _, a := range q.Assumes {
		fmt.Fprintf(&body, "(assert %s)\n", a)
	}
	if !q.Smoke {
		goal, decls, trig := x.skolemGoal(q)
		for _, d := range decls {
			if !x.w.extraSeen[d] {
				body.WriteString(d)
				body.WriteString("\n")
			}
		}
		for _, a := range trig {
			fmt.Fprintf(&body, "(assert %s)\n", a)
		}
		fmt.Fprintf(&body, "(assert (not %s))\n", goal)
	}
	if quant && !noPrune {
		p, _ := prunePrelude(pre.String(), body.String())
		b.WriteString(p)
	} else {
		b.WriteString(pre.String())
	}
	b.WriteString(body.String())
	b.WriteString("(check-sat)\n")
	if model {
		b.WriteString("(get-model)\n")
	}
	return b.String()
}

func runSolver(bin string, args []string, script string, timeout time.Duration) (string, string, float64) {
	return runSolverCtx(context.Background(), bin, args, script, timeout)
}

func runSolverCtx(parent context.Context, bin string, args []string, script string, timeout time.Duration) (string, string, float64) {
	ctx, cancel := context.WithTimeout(parent, timeout+2*time.Second)
	defer cancel()
	start := time.Now()
	cmd := exec.CommandContext(ctx, bin, args...)
	cmd.Stdin = strings.NewReader(script)
	var out bytes.Buffer
	cmd.Stdout = &out
	cmd.Stderr = &out
	_ = cmd.Run()
	secs := time.Since(start).Seconds()
	text := out.String()
	first := strings.TrimSpace(strings.SplitN(text, "\n", 2)[0])
	if strings.Contains(text, "(error") && first != "unsat" && first != "sat" && first != "unknown" {
		return "error", text, secs
	}
	if strings.Contains(text, "(error") && !strings.Contains(text, "model is not available") {
		// any error in the script is a hard failure, never a pass
		return "error", text, secs
	}
	switch first {
	case "unsat", "sat", "unknown":
		return first, text, secs
	case "timeout":
		return "timeout", text, secs
	}
	if ctx.Err() != nil {
		return "timeout", text, secs
	}
	return "error", text, secs
}

// discharge runs the portfolio on one query.
func (x *Exec) discharge(q *Query, tier string) *Result { return x.dischargeSeed(q, tier, 0) }

// dischargeSeed runs the portfolio with a given z3 random seed (0: the default).
func (x *Exec) dischargeSeed(q *Query, tier string, seed int) *Result {
	var sa []string
	if seed != 0 {
		sa = []string{fmt.Sprintf("smt.random_seed=%d", seed), fmt.Sprintf("sat.random_seed=%d", seed)}
	}
	res := &Result{Q: q}
	to := 30 * time.Second
	if tier == "thorough" {
		to = 60 * time.Second
	}
	if q.Meta["knownopen"] != "" {
		to = 3 * time.Second
	}
	ms := fmt.Sprintf("%d", int(to/time.Millisecond))
	if q.Smoke {
		full := x.script(q, true, true, false)
		a, out, s := runSolver("z3-new", []string{"-in", "-t:2000"}, full, 3*time.Second)
		res.Seconds += s
		res.Answer, res.Backend, res.Output = a, "z3-new", out
		return res
	}
	// 1. quantifier-free pass
	qf := x.script(q, false, true, true)
	a, out, s := runSolver("z3-new", append([]string{"-in", "-t:3000"}, sa...), qf, 4*time.Second)
	res.Seconds += s
	res.QFAnswer = a
	if a == "unsat" {
		res.Answer, res.Backend = "unsat", "qf:z3-new"
		return res
	}
	if a == "sat" {
		res.QFModel = out
	}
	if a == "error" {
		res.Answer, res.Backend, res.Output = "error", "qf:z3-new", out
		return res
	}
	// the two z3 versions race on the full script: which of them finds the proof quickly
	// varies from query to query, the first `unsat` (or a script error) wins
	full := x.script(q, true, true, false)
	type ans struct {
		a, out, backend string
		s               float64
	}
	race, stop := context.WithCancel(context.Background())
	// A third contestant: z3 5.1 with a lower eager instantiation threshold.  The sequence
	// axioms can feed each other (a split s = s[:k] + s[k:] makes every slice of s a slice of an
	// append); with the default threshold the search sometimes drowns in such instances, with
	// a low one they are postponed and the short proof is found at once - and the other way round.
	type contestant struct {
		bin, name string
		extra     []string
	}
	cs := []contestant{{"z3-new", "z3-new", nil}, {"z3", "z3-4.8.12", nil}, {"z3-new", "z3-new/eager4", []string{"smt.qi.eager_threshold=4"}},
		{"z3", "z3-4.8.12/eager2", []string{"smt.qi.eager_threshold=2"}}}
	ch := make(chan ans, len(cs))
	for _, c := range cs {
		c := c
		go func() {
			args := append([]string{"-in", "-t:" + ms}, sa...)
			args = append(args, c.extra...)
			a, out, s := runSolverCtx(race, c.bin, args, full, to)
			ch <- ans{a, out, c.name, s}
		}()
	}
	var first string
	var wall float64
	for i := 0; i < len(cs); i++ {
		r := <-ch
		if r.s > wall {
			wall = r.s
		}
		if r.a == "unsat" || (r.a == "error" && r.backend == "z3-new") {
			stop()
			res.Seconds += r.s
			res.Answer, res.Backend = r.a, r.backend
			if r.a == "error" {
				res.Output = r.out
			}
			return res
		}
		if r.backend == "z3-new" {
			first, out = r.a, r.out
		}
	}
	stop()
	res.Seconds += wall
	if tier == "thorough" {
		cv := x.script(q, true, false, false)
		a3, _, s3 := runSolver("cvc5", []string{"--lang=smt2", "--tlimit=" + ms}, cv, to)
		res.Seconds += s3
		if a3 == "unsat" {
			res.Answer, res.Backend = "unsat", "cvc5"
			return res
		}
	}
	res.Answer, res.Backend, res.Output = first, "z3-new", out
	if res.QFAnswer == "sat" {
		res.Model = res.QFModel
	}
	return res
}

func (x *Exec) dischargeAll(qs []*Query, tier string, workers int) []*Result {
	x.lemmaAxiomText() // built once, before the workers start
	res := make([]*Result, len(qs))
	var wg sync.WaitGroup
	ch := make(chan int)
	for w := 0; w < workers; w++ {
		wg.Add(1)
		go func() {
			defer wg.Done()
			for i := range ch {
				res[i] = x.discharge(qs[i], tier)
			}
		}()
	}
	for i := range qs {
		ch <- i
	}
	close(ch)
	wg.Wait()
	// A time-out may be an artefact of sixteen solvers sharing the machine with whatever
	// else runs, and both time-outs and `unknown` depend on the solver's search order:
	// such queries get one more attempt, four at a time and with another random seed,
	// before they count.  Only `unsat` from the second attempt changes the outcome.
	var again []int
	for i, r := range res {
		if r != nil && !r.Q.Smoke && r.Q.Meta["knownopen"] == "" && (r.Answer == "timeout" || r.Answer == "unknown") {
			again = append(again, i)
		}
	}
	if len(again) > 0 && len(again) <= 64 {
		ch2 := make(chan int)
		var wg2 sync.WaitGroup
		for w := 0; w < 4; w++ {
			wg2.Add(1)
			go func() {
				defer wg2.Done()
				for i := range ch2 {
					first := res[i]
					r := x.dischargeSeed(qs[i], tier, 7)
					if r.Answer != "unsat" {
						// report the first attempt (its model, if any, came from the default configuration)
						first.Seconds += r.Seconds
						first.Retried = true
						continue
					}
					r.Seconds += first.Seconds
					r.Retried = true
					res[i] = r
				}
			}()
		}
		for _, i := range again {
			ch2 <- i
		}
		close(ch2)
		wg2.Wait()
	}
	return res
}

func dumpQuery(dir string, x *Exec, q *Query, idx int) string {
	os.MkdirAll(dir, 0o755)
	name := sanitize(q.Name)
	if len(name) > 150 {
		name = name[len(name)-150:]
	}
	p := filepath.Join(dir, fmt.Sprintf("%04d_%s.smt2", idx, name))
	os.WriteFile(p, []byte(x.script(q, true, true, false)), 0o644)
	return p
}

