package main

// Relevance pruning of the axiom prelude.
//
// Every query used to carry the whole prelude (sequence axioms for every element sort, codec,
// DER, fmt, crypto, time, every spec function, every string literal seen so far): about a
// thousand quantified axioms, of which a query needs a hundred.  E-matching instantiates an
// axiom only when terms matching one of its patterns exist, so an axiom none of whose patterns
// can ever be matched by terms reachable from the query contributes nothing but search noise.
// The prelude is therefore cut down, per query, to the axioms reachable from the query's own
// symbols (a fixpoint: an included axiom makes the symbols of its body reachable).
//
// Dropping hypotheses is sound for a refutation proof: `unsat` of a subset of the assumptions
// implies `unsat` of all of them.  Only completeness could suffer, and only for proofs that
// would have needed an instantiation E-matching could not have found anyway.

import (
	"strings"
	"sync"
)

type psx struct {
	atom string
	list []*psx
}

func tokenizePsx(s string) []string {
	var toks []string
	i, n := 0, len(s)
	for i < n {
		c := s[i]
		switch {
		case c == ' ' || c == '\n' || c == '\t' || c == '\r':
			i++
		case c == ';':
			for i < n && s[i] != '\n' {
				i++
			}
		case c == '(' || c == ')':
			toks = append(toks, string(c))
			i++
		case c == '|':
			j := i + 1
			for j < n && s[j] != '|' {
				j++
			}
			toks = append(toks, s[i:min(j+1, n)])
			i = j + 1
		case c == '"':
			j := i + 1
			for j < n && s[j] != '"' {
				j++
			}
			toks = append(toks, s[i:min(j+1, n)])
			i = j + 1
		default:
			j := i
			for j < n && !strings.ContainsRune(" \n\t\r();", rune(s[j])) {
				j++
			}
			toks = append(toks, s[i:j])
			i = j
		}
	}
	return toks
}

func parsePsx(toks []string, pos *int) *psx {
	if *pos >= len(toks) {
		return &psx{}
	}
	t := toks[*pos]
	*pos++
	if t != "(" {
		return &psx{atom: t}
	}
	e := &psx{list: []*psx{}}
	for *pos < len(toks) && toks[*pos] != ")" {
		e.list = append(e.list, parsePsx(toks, pos))
	}
	*pos++
	return e
}

// splitForms cuts a script into its top-level forms.
func splitForms(text string) []string {
	var forms []string
	depth, start := 0, -1
	n := len(text)
	for i := 0; i < n; i++ {
		switch text[i] {
		case ';':
			for i < n && text[i] != '\n' {
				i++
			}
		case '|':
			i++
			for i < n && text[i] != '|' {
				i++
			}
		case '"':
			i++
			for i < n && text[i] != '"' {
				i++
			}
		case '(':
			if depth == 0 {
				start = i
			}
			depth++
		case ')':
			depth--
			if depth == 0 && start >= 0 {
				forms = append(forms, text[start:i+1])
				start = -1
			}
		}
	}
	return forms
}

var smtBuiltin = map[string]bool{}

func init() {
	for _, w := range strings.Fields("and or not => = <= < >= > + - * / div mod abs ite forall exists let select store Int Bool Real Array true false ! distinct as const xor to_int to_real") {
		smtBuiltin[w] = true
	}
}

func isSymAtom(a string) bool {
	if a == "" || smtBuiltin[a] || a[0] == ':' || a[0] == '"' || strings.HasPrefix(a, "needs.") {
		return false
	}
	if (a[0] >= '0' && a[0] <= '9') || a[0] == '#' {
		return false
	}
	return true
}

func collectSyms(e *psx, bound map[string]int, out map[string]bool) {
	if e.list == nil {
		if isSymAtom(e.atom) && bound[e.atom] == 0 {
			out[e.atom] = true
		}
		return
	}
	if len(e.list) >= 3 && e.list[0].list == nil {
		switch e.list[0].atom {
		case "forall", "exists":
			var names []string
			for _, b := range e.list[1].list {
				if len(b.list) > 0 {
					names = append(names, b.list[0].atom)
					if len(b.list) > 1 {
						collectSyms(b.list[1], bound, out) // the sort
					}
				}
			}
			for _, nm := range names {
				bound[nm]++
			}
			for _, x := range e.list[2:] {
				collectSyms(x, bound, out)
			}
			for _, nm := range names {
				bound[nm]--
			}
			return
		case "let":
			var names []string
			for _, b := range e.list[1].list {
				if len(b.list) > 1 {
					names = append(names, b.list[0].atom)
					collectSyms(b.list[1], bound, out)
				}
			}
			for _, nm := range names {
				bound[nm]++
			}
			for _, x := range e.list[2:] {
				collectSyms(x, bound, out)
			}
			for _, nm := range names {
				bound[nm]--
			}
			return
		}
	}
	for _, x := range e.list {
		collectSyms(x, bound, out)
	}
}

type formInfo struct {
	kind   byte              // 'd' declaration (always kept), 'q' quantified axiom, 'g' ground fact, 'm' mixed (quantifier below the top)
	pats   []map[string]bool // per pattern: symbols that must be reachable
	syms   map[string]bool   // all symbols of the form
	consts map[string]bool   // symbols that never occur in function position: constants the axiom is about
	needs  []string          // :qid needs.<sym>: only useful once <sym> is reachable by other means
	defSym string            // define-fun: the defined name
}

var (
	formCacheMu sync.Mutex
	formCache   = map[string]*formInfo{}
)

// collectHeads gathers the symbols that occur in function position, and the sorts of binders.
func collectHeads(e *psx, out map[string]bool) {
	if e.list == nil {
		return
	}
	if len(e.list) > 0 && e.list[0].list == nil {
		out[e.list[0].atom] = true
		if h := e.list[0].atom; (h == "forall" || h == "exists") && len(e.list) >= 2 {
			for _, b := range e.list[1].list {
				if len(b.list) > 1 {
					markAll(b.list[1], out)
				}
			}
		}
	}
	for _, x := range e.list {
		collectHeads(x, out)
	}
}

func markAll(e *psx, out map[string]bool) {
	if e.list == nil {
		out[e.atom] = true
		return
	}
	for _, x := range e.list {
		markAll(x, out)
	}
}

func containsQuant(e *psx) bool {
	if e.list == nil {
		return false
	}
	if len(e.list) > 0 && e.list[0].list == nil && (e.list[0].atom == "forall" || e.list[0].atom == "exists") {
		return true
	}
	for _, x := range e.list {
		if containsQuant(x) {
			return true
		}
	}
	return false
}

func analyzeForm(f string) *formInfo {
	formCacheMu.Lock()
	if fi, ok := formCache[f]; ok {
		formCacheMu.Unlock()
		return fi
	}
	formCacheMu.Unlock()
	toks := tokenizePsx(f)
	pos := 0
	e := parsePsx(toks, &pos)
	fi := &formInfo{kind: 'd', syms: map[string]bool{}}
	if len(e.list) >= 2 && e.list[0].atom == "assert" {
		body := e.list[1]
		collectSyms(body, map[string]int{}, fi.syms)
		if len(body.list) >= 3 && body.list[0].atom == "forall" {
			fi.kind = 'q'
			heads := map[string]bool{}
			collectHeads(body, heads)
			fi.consts = map[string]bool{}
			for sym := range fi.syms {
				if !heads[sym] && !strings.HasSuffix(sym, "_empty") {
					fi.consts[sym] = true
				}
			}
			bound := map[string]int{}
			for _, b := range body.list[1].list {
				if len(b.list) > 0 {
					bound[b.list[0].atom]++
				}
			}
			inner := body.list[2]
			if len(inner.list) >= 2 && inner.list[0].atom == "!" {
				for i := 2; i+1 < len(inner.list); i += 2 {
					if inner.list[i].atom == ":pattern" {
						p := map[string]bool{}
						collectSyms(inner.list[i+1], bound, p)
						fi.pats = append(fi.pats, p)
					}
					if inner.list[i].atom == ":qid" && strings.HasPrefix(inner.list[i+1].atom, "needs.") {
						fi.needs = append(fi.needs, strings.TrimPrefix(inner.list[i+1].atom, "needs."))
					}
				}
			}
		} else if containsQuant(body) {
			fi.kind = 'm'
		} else {
			fi.kind = 'g'
		}
	} else if len(e.list) >= 2 && (e.list[0].atom == "define-fun" || e.list[0].atom == "define-fun-rec") {
		fi.defSym = e.list[1].atom
		for _, x := range e.list[2:] {
			collectSyms(x, map[string]int{}, fi.syms)
		}
		// the parameters are bound names, not symbols
		if len(e.list) > 2 {
			for _, b := range e.list[2].list {
				if len(b.list) > 0 {
					delete(fi.syms, b.list[0].atom)
				}
			}
		}
	}
	formCacheMu.Lock()
	formCache[f] = fi
	formCacheMu.Unlock()
	return fi
}

func subsetOf(a, b map[string]bool) bool {
	for k := range a {
		if !b[k] {
			return false
		}
	}
	return true
}

// prunePrelude keeps the declarations of pre and those of its assertions that are reachable
// from the symbols of body.  It returns the pruned prelude and the number of assertions dropped.
func prunePrelude(pre, body string) (string, int) {
	forms := splitForms(pre)
	infos := make([]*formInfo, len(forms))
	for i, f := range forms {
		infos[i] = analyzeForm(f)
	}
	R := map[string]bool{}
	btoks := tokenizePsx(body)
	for _, t := range btoks {
		if t != "(" && t != ")" && isSymAtom(t) {
			R[t] = true // bound variable names of the query are harmless extras
		}
	}
	R0 := map[string]bool{} // the query's own symbols
	for k := range R {
		R0[k] = true
	}
	basics := map[string]bool{}
	for i, f := range forms {
		if infos[i].kind == 'd' && strings.HasPrefix(f, "(declare-fun ") {
			name := strings.Fields(f[len("(declare-fun "):])[0]
			if strings.HasSuffix(name, "_empty") {
				basics[name] = true
				R[name] = true
			}
		}
	}
	keep := make([]bool, len(forms))
	for i, fi := range infos {
		if fi.kind == 'd' {
			keep[i] = true
		}
	}
	for changed := true; changed; {
		changed = false
		for i, fi := range infos {
			if fi.kind == 'd' {
				if fi.defSym != "" && R[fi.defSym] {
					for s := range fi.syms {
						if !R[s] {
							R[s] = true
							changed = true
						}
					}
				}
				continue
			}
			if keep[i] {
				continue
			}
			inc := false
			switch fi.kind {
			case 'q':
				if len(fi.pats) == 0 {
					for s := range fi.syms {
						if R[s] && !basics[s] {
							inc = true
							break
						}
					}
				} else {
					for _, p := range fi.pats {
						if subsetOf(p, R) {
							inc = true
							break
						}
					}
				}
				// an axiom about particular constants (a string literal, say) is of no use to a
				// query that does not mention them
				if inc && !subsetOf(fi.consts, R) {
					inc = false
				}
				// an axiom that only pays off when the query itself speaks of a symbol it would introduce
				for _, n := range fi.needs {
					if !R0[n] {
						inc = false
					}
				}
			case 'g':
				inc = subsetOf(fi.syms, R)
			case 'm':
				for s := range fi.syms {
					if R[s] && !basics[s] {
						inc = true
						break
					}
				}
			}
			if inc {
				keep[i] = true
				changed = true
				for s := range fi.syms {
					R[s] = true
				}
			}
		}
	}
	var b strings.Builder
	dropped := 0
	for i, f := range forms {
		if keep[i] {
			b.WriteString(f)
			b.WriteString("\n")
		} else {
			dropped++
		}
	}
	return b.String(), dropped
}
