package main

// Mapping from Go types to SMT sorts, generation of datatypes, heaps.

import (
	"fmt"
	"go/types"
	"math/big"
	"sort"
	"strings"
)

// World collects every sort/datatype/heap/uninterpreted symbol that the
// generated queries may mention; it is global for one run (declarations are
// emitted for everything known, which is harmless).
type World struct {
	dtByKey  map[string]*DT // key: canonical type string
	dtOrder  []*DT
	seqSorts map[string]string // seq sort name -> element sort
	seqOrder []string
	heaps    map[string]string // heap base name -> element sort
	strLits  map[string]string // literal -> constant name
	strOrder []string
	extraDecl []string // declare-fun lines for ad-hoc uninterpreted symbols
	extraSeen map[string]bool
}

type DT struct {
	Name    string
	Fields  []DTField
	GoType  types.Type  // may be nil for ghost structs
	goIndex map[int]int // Go field index -> datatype field index (library structs keep exported fields only)
}

// GoField maps a Go struct field index to the datatype field index (-1: not modelled).
func (d *DT) GoField(i int) int {
	if d.goIndex == nil {
		return i
	}
	if k, ok := d.goIndex[i]; ok {
		return k
	}
	return -1
}

type DTField struct {
	Name string
	Sort string
	Type types.Type // nil for ghost fields
}

func NewWorld() *World {
	w := &World{dtByKey: map[string]*DT{}, seqSorts: map[string]string{}, heaps: map[string]string{}, strLits: map[string]string{}, extraSeen: map[string]bool{}}
	w.seqSorts[SSeqI] = SInt
	w.seqOrder = append(w.seqOrder, SSeqI)
	return w
}

// ghost models of opaque library types: name -> fields
var ghostStructs = map[string][]DTField{
	"bytes.Buffer":     {{Name: "content", Sort: SSeqI}},
	"bytes.Reader":     {{Name: "s", Sort: SSeqI}, {Name: "pos", Sort: SInt}},
	"io.SectionReader": {{Name: "view", Sort: SSeqI}, {Name: "pos", Sort: SInt}, {Name: "src", Sort: SInt}, {Name: "off", Sort: SInt}, {Name: "n", Sort: SInt}},
}

func sanitize(s string) string {
	r := strings.NewReplacer("/", "_", ".", "_", "-", "_", "*", "P", "[", "L", "]", "R", " ", "_", "{", "_", "}", "_", ";", "_", ",", "_", "(", "_", ")", "_")
	return r.Replace(s)
}

func typeKey(t types.Type) string {
	return types.TypeString(t, func(p *types.Package) string { return p.Path() })
}

func shortTypeName(t types.Type) string {
	if n, ok := t.(*types.Named); ok {
		obj := n.Obj()
		if obj.Pkg() != nil {
			return obj.Pkg().Name() + "." + obj.Name()
		}
		return obj.Name()
	}
	return ""
}

// isOpaqueStruct: library structs with unexported fields that are not modelled.
func isOpaqueStruct(t types.Type) bool {
	n, ok := t.(*types.Named)
	if !ok {
		return false
	}
	if _, ok := ghostStructs[shortTypeName(n)]; ok {
		return false
	}
	st, ok := n.Underlying().(*types.Struct)
	if !ok {
		return false
	}
	pkg := n.Obj().Pkg()
	if pkg != nil && strings.HasPrefix(pkg.Path(), "github.com/foxboron/go-uefi") {
		return false
	}
	for i := 0; i < st.NumFields(); i++ {
		if !st.Field(i).Exported() {
			return true
		}
	}
	return false
}

// SortOf maps a Go type to an SMT sort name.
func (w *World) SortOf(t types.Type) string {
	switch u := t.(type) {
	case *types.Named:
		if sn := shortTypeName(u); ghostStructs[sn] != nil {
			return w.dtFor(u).Name
		}
		if _, ok := u.Underlying().(*types.Struct); ok {
			return w.dtFor(u).Name
		}
		return w.SortOf(u.Underlying())
	case *types.Alias:
		return w.SortOf(types.Unalias(u))
	case *types.Basic:
		switch {
		case u.Info()&types.IsBoolean != 0:
			return SBool
		case u.Info()&types.IsString != 0:
			return SSeqI
		case u.Info()&types.IsInteger != 0:
			return SInt
		case u.Kind() == types.UntypedNil:
			return SInt
		}
		return SInt // floats etc: opaque
	case *types.Pointer:
		return SInt
	case *types.Slice:
		return w.SeqSort(w.SortOf(u.Elem()))
	case *types.Array:
		return w.SeqSort(w.SortOf(u.Elem()))
	case *types.Struct:
		return w.dtFor(u).Name
	case *types.Interface, *types.Signature, *types.Map, *types.Chan, *types.Tuple:
		return SInt
	case *types.TypeParam:
		return SInt
	}
	return SInt
}

func (w *World) SeqSort(elem string) string {
	if elem == SInt {
		return SSeqI
	}
	name := "g_Seq_" + elem
	if _, ok := w.seqSorts[name]; !ok {
		w.seqSorts[name] = elem
		w.seqOrder = append(w.seqOrder, name)
	}
	return name
}

func (w *World) ElemSort(seqSort string) string { return w.seqSorts[seqSort] }

func (w *World) dtFor(t types.Type) *DT {
	// `type X bytes.Buffer`: X and bytes.Buffer share one sort (and so one heap): a pointer
	// converted between the two types addresses the same object
	if n, ok := t.(*types.Named); ok {
		if g := ghostFor(n); g != "" && g != shortTypeName(n) {
			if st, ok := n.Underlying().(*types.Struct); ok && st.NumFields() > 0 && st.Field(0).Pkg() != nil {
				if i := strings.LastIndex(g, "."); i >= 0 {
					if obj, ok := st.Field(0).Pkg().Scope().Lookup(g[i+1:]).(*types.TypeName); ok {
						return w.dtFor(obj.Type())
					}
				}
			}
		}
	}
	key := typeKey(t)
	if d, ok := w.dtByKey[key]; ok {
		return d
	}
	d := &DT{GoType: t}
	w.dtByKey[key] = d // reserve (no recursion by value in Go)
	if n, ok := t.(*types.Named); ok {
		sn := shortTypeName(n)
		d.Name = "T_" + sanitize(sn)
		if g, ok := ghostStructs[sn]; ok {
			d.Fields = append(d.Fields, g...)
			w.dtOrder = append(w.dtOrder, d)
			return d
		}
	} else {
		d.Name = "T_anon_" + sanitize(key)
		if len(d.Name) > 60 {
			d.Name = fmt.Sprintf("T_anon%d", len(w.dtByKey))
		}
	}
	// avoid name clashes between packages
	for _, o := range w.dtOrder {
		if o.Name == d.Name {
			d.Name = d.Name + fmt.Sprintf("_%d", len(w.dtByKey))
		}
	}
	st := t.Underlying().(*types.Struct)
	opaque := isOpaqueStruct(t)
	if opaque {
		d.goIndex = map[int]int{}
	}
	for i := 0; i < st.NumFields(); i++ {
		f := st.Field(i)
		if opaque {
			if !f.Exported() {
				continue
			}
			d.goIndex[i] = len(d.Fields)
		}
		fname := f.Name()
		if fname == "_" {
			fname = fmt.Sprintf("blank%d__", i) // blank fields need distinct accessor names
		}
		d.Fields = append(d.Fields, DTField{Name: fname, Sort: w.SortOf(f.Type()), Type: f.Type()})
	}
	if opaque {
		d.Fields = append(d.Fields, DTField{Name: "abs__", Sort: SInt})
	}
	if len(d.Fields) == 0 {
		d.Fields = append(d.Fields, DTField{Name: "unit__", Sort: SInt})
	}
	w.dtOrder = append(w.dtOrder, d)
	return d
}

func (w *World) DTByName(name string) *DT {
	for _, d := range w.dtOrder {
		if d.Name == name {
			return d
		}
	}
	return nil
}

func (d *DT) Ctor() string           { return "mk_" + d.Name }
func (d *DT) Sel(i int) string       { return d.Name + "_" + d.Fields[i].Name }
func (d *DT) Get(i int, v string) string {
	// fold (sel (mk a b c)) -> component
	if args, ok := splitCtor(v, d.Ctor()); ok && len(args) == len(d.Fields) {
		return args[i]
	}
	return app(d.Sel(i), v)
}
func (d *DT) FieldIndex(name string) int {
	for i, f := range d.Fields {
		if f.Name == name {
			return i
		}
	}
	return -1
}
func (d *DT) Make(fields []string) string { return app(d.Ctor(), fields...) }
func (d *DT) With(v string, i int, nv string) string {
	fs := make([]string, len(d.Fields))
	for k := range d.Fields {
		if k == i {
			fs[k] = nv
		} else {
			fs[k] = d.Get(k, v)
		}
	}
	return d.Make(fs)
}

// splitCtor parses "(ctor a b c)" into its top-level arguments.
func splitCtor(v, ctor string) ([]string, bool) {
	pre := "(" + ctor + " "
	if !strings.HasPrefix(v, pre) || !strings.HasSuffix(v, ")") {
		return nil, false
	}
	body := v[len(pre) : len(v)-1]
	var args []string
	depth := 0
	start := 0
	for i := 0; i < len(body); i++ {
		switch body[i] {
		case '(':
			depth++
		case ')':
			depth--
		case ' ':
			if depth == 0 {
				if i > start {
					args = append(args, body[start:i])
				}
				start = i + 1
			}
		}
	}
	if start < len(body) {
		args = append(args, body[start:])
	}
	return args, true
}

// Heap returns the base name of the heap array holding values of sort s.
func (w *World) Heap(sortName string) string {
	h := "H_" + sortName
	w.heaps[h] = sortName
	return h
}

func (w *World) Decl(line string) {
	if !w.extraSeen[line] {
		w.extraSeen[line] = true
		w.extraDecl = append(w.extraDecl, line)
	}
}

// StrLit returns a constant standing for a string literal (as a byte sequence).
func (w *World) StrLit(s string) string {
	if s == "" {
		return sEmpty(SSeqI)
	}
	if c, ok := w.strLits[s]; ok {
		return c
	}
	c := fmt.Sprintf("g_str%d", len(w.strLits))
	w.strLits[s] = c
	w.strOrder = append(w.strOrder, s)
	return c
}

// Prelude emits all sort, datatype and function declarations.
func (w *World) Prelude(quant bool) string {
	var b strings.Builder
	for _, s := range w.seqOrder {
		fmt.Fprintf(&b, "(declare-sort %s 0)\n", s)
	}
	for _, d := range w.dtOrder {
		fmt.Fprintf(&b, "(declare-datatypes ((%s 0)) (((%s", d.Name, d.Ctor())
		for i, f := range d.Fields {
			fmt.Fprintf(&b, " (%s %s)", d.Sel(i), f.Sort)
		}
		b.WriteString("))))\n")
	}
	b.WriteString(intPrelude)
	if quant {
		b.WriteString(intPreludeQ)
	}
	for _, s := range w.seqOrder {
		b.WriteString(seqPrelude(s, w.seqSorts[s], quant))
	}
	// string literals
	for i, s := range w.strOrder {
		c := w.strLits[s]
		fmt.Fprintf(&b, "(declare-fun %s () %s)\n", c, SSeqI)
		fmt.Fprintf(&b, "(assert (= (%s_len %s) %d))\n", SSeqI, c, len(s))
		if len(s) <= 64 {
			for k := 0; k < len(s); k++ {
				fmt.Fprintf(&b, "(assert (= (%s_idx %s %d) %d))\n", SSeqI, c, k, s[k])
			}
		}
		for j := 0; j < i; j++ {
			fmt.Fprintf(&b, "(assert (not (= %s %s)))\n", c, w.strLits[w.strOrder[j]])
		}
		if quant && len(s) >= 1 && len(s) <= 64 {
			// extensionality towards the literal: a sequence with these elements is the literal
			// (lets a []byte{...} composite literal in the code meet a string literal in a contract)
			// (triggered by sequences built element by element only: upd and build terms)
			for _, shape := range []struct{ vars, term string }{
				{"(s0 " + SSeqI + ") (i Int) (v Int)", "(" + SSeqI + "_upd s0 i v)"},
				{"(s0 " + SSeqI + ") (v Int)", "(" + SSeqI + "_build s0 v)"},
			} {
				var conj []string
				conj = append(conj, fmt.Sprintf("(= (%s_len %s) %d)", SSeqI, shape.term, len(s)))
				for k := 0; k < len(s); k++ {
					conj = append(conj, fmt.Sprintf("(= (%s_idx %s %d) %d)", SSeqI, shape.term, k, s[k]))
				}
				fmt.Fprintf(&b, "(assert (forall (%s) (! (=> (and %s) (= %s %s)) :pattern (%s))))\n", shape.vars, strings.Join(conj, " "), shape.term, c, shape.term)
			}
		}
	}
	var hs []string
	for h := range w.heaps {
		hs = append(hs, h)
	}
	sort.Strings(hs)
	_ = hs
	for _, l := range w.extraDecl {
		b.WriteString(l)
		b.WriteString("\n")
	}
	return b.String()
}

// integer ranges ------------------------------------------------------------

type intRange struct {
	lo, hi *big.Int // inclusive
	bits   uint
	signed bool
}

func rangeOfBasic(b *types.Basic) (intRange, bool) {
	var bits uint
	signed := false
	switch b.Kind() {
	case types.Int8:
		bits, signed = 8, true
	case types.Int16:
		bits, signed = 16, true
	case types.Int32:
		bits, signed = 32, true
	case types.Int64, types.Int, types.UntypedInt:
		bits, signed = 64, true
	case types.Uint8:
		bits = 8
	case types.Uint16:
		bits = 16
	case types.Uint32:
		bits = 32
	case types.Uint64, types.Uint, types.Uintptr:
		bits = 64
	case types.UntypedRune:
		bits, signed = 32, true
	default:
		return intRange{}, false
	}
	r := intRange{bits: bits, signed: signed}
	if signed {
		r.lo = new(big.Int).Neg(pow2(bits - 1))
		r.hi = new(big.Int).Sub(pow2(bits-1), big.NewInt(1))
	} else {
		r.lo = big.NewInt(0)
		r.hi = new(big.Int).Sub(pow2(bits), big.NewInt(1))
	}
	return r, true
}

func intRangeOf(t types.Type) (intRange, bool) {
	b, ok := t.Underlying().(*types.Basic)
	if !ok {
		return intRange{}, false
	}
	if b.Info()&types.IsInteger == 0 {
		return intRange{}, false
	}
	return rangeOfBasic(b)
}

func (r intRange) contains(o intRange) bool {
	return r.lo.Cmp(o.lo) <= 0 && r.hi.Cmp(o.hi) >= 0
}

// wrap reduces a mathematical integer term into the range (two's complement).
func (r intRange) wrap(t string) string {
	if x, ok := isNum(t); ok {
		m := pow2(r.bits)
		v := new(big.Int).Mod(x, m)
		if r.signed && v.Cmp(r.hi) > 0 {
			v.Sub(v, m)
		}
		return numLit(v)
	}
	m := pow2(r.bits)
	if !r.signed {
		return tModC(t, m)
	}
	half := pow2(r.bits - 1)
	return tSub(tModC(tAdd(t, numLit(half)), m), numLit(half))
}

// wrap1 is wrap for a value known to be within one modulus of the range
// (result of a single add/sub of in-range operands): uses ite, stays linear.
func (r intRange) wrap1(t string) string {
	if _, ok := isNum(t); ok {
		return r.wrap(t)
	}
	m := numLit(pow2(r.bits))
	return tIte(tCmp(">", t, numLit(r.hi)), tSub(t, m), tIte(tCmp("<", t, numLit(r.lo)), tAdd(t, m), t))
}

func (r intRange) inRange(t string) string {
	return tAnd(tCmp("<=", numLit(r.lo), t), tCmp("<=", t, numLit(r.hi)))
}
