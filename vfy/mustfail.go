package main

import (
	"encoding/json"
	"os"
	"os/exec"
	"path/filepath"
	"sort"
	"strings"
	"sync"
)

// The must-fail corpus: /verif/seeded/<name>/ holds property-breaking changes written by
// independent sub-agents (patch.diff) and, in meta.json, the properties whose check detects each
// (expect_detect, recorded from a run on the pinned tree). In the thorough tier every such change
// is applied to a scratch copy of the tree under test and the quick check is run on it.

type mustFailResult struct {
	summary map[string]interface{}
	missed  []string
}

func mustFailCorpus(id string) mustFailResult {
	res := mustFailResult{summary: map[string]interface{}{}}
	dirs, _ := filepath.Glob(filepath.Join(verifRoot, "seeded", "*"))
	sort.Strings(dirs)
	detected, skipped := []string{}, []string{}
	res.missed = []string{}
	var todo []string
	for _, d := range dirs {
		data, err := os.ReadFile(filepath.Join(d, "meta.json"))
		if err != nil {
			continue
		}
		var meta struct {
			ExpectDetect []string `json:"expect_detect"`
		}
		if json.Unmarshal(data, &meta) != nil {
			continue
		}
		for _, p := range meta.ExpectDetect {
			if p == id {
				todo = append(todo, d)
				break
			}
		}
	}
	type outcome struct {
		name, kind, why string // kind: detected | missed | skipped
	}
	results := make([]outcome, len(todo))
	sem := make(chan struct{}, 3) // three changes at a time: each run is a portfolio of solvers itself
	var wg sync.WaitGroup
	for i, d := range todo {
		wg.Add(1)
		go func(i int, d string) {
			defer wg.Done()
			sem <- struct{}{}
			defer func() { <-sem }()
			results[i] = runMustFail(id, d)
		}(i, d)
	}
	wg.Wait()
	for _, r := range results {
		switch r.kind {
		case "detected":
			detected = append(detected, r.name)
		case "missed":
			res.missed = append(res.missed, r.name)
		default:
			skipped = append(skipped, r.name+" ("+r.why+")")
		}
	}
	res.summary["changes_expected_to_be_detected"] = len(detected) + len(res.missed) + len(skipped)
	res.summary["detected"] = detected
	res.summary["not_detected"] = res.missed
	res.summary["skipped"] = skipped
	res.summary["how"] = "each change (seeded/<name>/patch.diff, written by a sub-agent that saw only the property text) is applied to a scratch copy of the tree under test; the quick check of this property must report a violation"
	return res
}

func runMustFail(id, d string) (r struct{ name, kind, why string }) {
	r.name = filepath.Base(d)
	scratch, err := os.MkdirTemp("", "vfy_mf_")
	if err != nil {
		r.kind, r.why = "skipped", "no scratch directory"
		return
	}
	defer os.RemoveAll(scratch)
	tree := filepath.Join(scratch, "tree")
	cp := exec.Command("rsync", "-a", "--exclude", ".git", repoRoot+"/", tree+"/")
	if out, err := cp.CombinedOutput(); err != nil {
		r.kind, r.why = "skipped", "copy failed: "+firstLines(string(out), 1)
		return
	}
	ap := exec.Command("git", "apply", filepath.Join(d, "patch.diff"))
	ap.Dir = tree
	if _, err := ap.CombinedOutput(); err != nil {
		// the tree under test differs from the pinned one where this change applies
		r.kind, r.why = "skipped", "does not apply to this tree"
		return
	}
	run := exec.Command(os.Args[0], "check", id, "--repo", tree, "--out", filepath.Join(scratch, "out"), "--tier", "quick", "--nocorpus")
	run.Env = append(os.Environ(), "VERIF_TIER=quick")
	out, _ := run.CombinedOutput()
	code := run.ProcessState.ExitCode()
	if code != 0 && (strings.Contains(string(out), "VIOLATION property="+id) || strings.Contains(string(out), "BROKEN")) {
		r.kind = "detected"
	} else {
		r.kind = "missed"
	}
	return
}
