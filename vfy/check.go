package main

// `vfy check <id>`: generate and discharge the obligations of one property,
// classify failures against known findings, replay counterexamples, write
// evidence, print VIOLATION / KNOWN-FINDING lines.

import (
	"bufio"
	"encoding/json"
	"flag"
	"fmt"
	"hash/fnv"
	"os"
	"path/filepath"
	"regexp"
	"sort"
	"strconv"
	"strings"
	"time"

	"golang.org/x/tools/go/ssa"
)

var scopeBounded = map[string][]boundedSpec{} // property id -> bounded stand-ins named in its scope

type scopeUnit struct {
	Func   string
	Auto   bool     // automatic obligations (safe.*, dec.*, pre.*, frame.*) count for this property
	Kinds  []string // restrict automatic kinds (prefix match); empty = all
	Faulty bool
}

type Finding struct {
	Property   string `json:"property"`
	Obligation string `json:"obligation"` // exact name or regexp (prefix "re:")
	Status     string `json:"status"`     // open | fixed
	What       string `json:"what"`
	Witness    string `json:"witness,omitempty"`
	Commit     string `json:"commit,omitempty"`
}

func loadScope(id string) ([]scopeUnit, error) {
	dir := filepath.Join(verifRoot, "props")
	if d := os.Getenv("VFY_PROPS"); d != "" {
		dir = d // experiments with a scope file outside /verif
	}
	f, err := os.Open(filepath.Join(dir, id+".scope"))
	if err != nil {
		return nil, err
	}
	defer f.Close()
	var out []scopeUnit
	sc := bufio.NewScanner(f)
	for sc.Scan() {
		l := strings.TrimSpace(sc.Text())
		if l == "" || strings.HasPrefix(l, "#") {
			continue
		}
		fs := strings.Fields(l)
		if fs[0] == "bounded" {
			b, err := parseBoundedLine(l)
			if err != nil {
				return nil, err
			}
			scopeBounded[id] = append(scopeBounded[id], b)
			continue
		}
		if fs[0] != "unit" || len(fs) < 2 {
			return nil, fmt.Errorf("scope %s: bad line %q", id, l)
		}
		u := scopeUnit{Func: fs[1]}
		if !strings.Contains(u.Func, "/") {
			u.Func = modPath + "/" + u.Func
		} else if !strings.HasPrefix(u.Func, "github.com") {
			u.Func = modPath + "/" + u.Func
		}
		for _, o := range fs[2:] {
			switch {
			case o == "auto":
				u.Auto = true
			case o == "faulty":
				u.Faulty = true
			case strings.HasPrefix(o, "kinds="):
				u.Auto = true
				u.Kinds = strings.Split(strings.TrimPrefix(o, "kinds="), ",")
			}
		}
		out = append(out, u)
	}
	return out, nil
}

func loadFindings() ([]Finding, error) {
	data, err := os.ReadFile(filepath.Join(verifRoot, "known_findings.json"))
	if err != nil {
		if os.IsNotExist(err) {
			return nil, nil
		}
		return nil, err
	}
	var fs []Finding
	if err := json.Unmarshal(data, &fs); err != nil {
		return nil, err
	}
	return fs, nil
}

func (f Finding) matches(prop, ob string) bool {
	if f.Property != prop && f.Property != "*" {
		return false
	}
	if strings.HasPrefix(f.Obligation, "re:") {
		ok, _ := regexp.MatchString(strings.TrimPrefix(f.Obligation, "re:"), ob)
		return ok
	}
	return f.Obligation == ob || modPath+"/"+f.Obligation == ob
}

func belongs(q *Query, id string, u scopeUnit) bool {
	if q.Smoke {
		return true
	}
	if q.Kind == "pre" {
		// a callee's postconditions are assumed at the call: its preconditions are owed there, in
		// every property that has the caller as a unit
		return true
	}
	if q.Kind == "frame" {
		// what a unit may write is part of every property it is a unit of: its callers assume
		// the frame its contract states
		return true
	}
	if q.Label != "" && q.Label != "frame" {
		head := q.Label
		if i := strings.Index(head, "."); i >= 0 {
			head = head[:i]
		}
		for _, p := range strings.Split(head, "+") {
			if p == id || p == "*" {
				return true
			}
		}
		if q.Kind == "pre" && u.Auto {
			return true
		}
		return false
	}
	if !u.Auto {
		return false
	}
	if len(u.Kinds) == 0 {
		return true
	}
	for _, k := range u.Kinds {
		if strings.HasPrefix(q.Kind, k) {
			return true
		}
	}
	return false
}

type evidence struct {
	PropertyID  string                 `json:"property_id"`
	Tier        string                 `json:"tier"`
	Seed        int                    `json:"seed"`
	Level       string                 `json:"level"`
	Coverage    map[string]interface{} `json:"coverage"`
	Assumptions []string               `json:"assumptions"`
	WallS       float64                `json:"wall_s"`
	Violations  int                    `json:"violations"`
}

var globalAssumptions = []string{
	"go/ssa (x/tools v0.29.0) and the gc compiler agree on the semantics of the functions under contract",
	"z3 5.1.0, z3 4.8.12 and cvc5 1.0.3 are sound; an obligation counts as discharged only on `unsat`",
	"pointer and interface parameters (including receivers) of a function under contract are non-nil unless its contract says nullable; this is checked at every call that goes through a contract; distinct pointer-to-scalar/slice parameters do not alias; callees do not retain pointers to caller locals",
	"slices and strings hold at most 2^48 elements (the Go runtime's maximum allocation); int is 64 bits",
	"single-owner slices: a backing array that has been shared as a value is not written afterwards (violations are reported as out-of-subset, never passed)",
	"error values are abstracted to (nil-ness, errors.Is class, wrapped bit); message text, perm bits, log output are dropped",
	"no concurrent mutation during a call",
	"loops are cut at their invariants: the heap objects, local cells and stream ghosts a loop body may write are havocked at the loop head; the event trace, the file store, the clock readings, the last signature, the failure flags of fault mode and package-level variables are not havocked - instead every back edge carries the obligation that the body hands them back unchanged (inv.N.*.ghost.*, inv.N.*.global.*, inv.N.C15.nofail)",
	"a callee under contract is replaced by its contract at every call: its preconditions (pre.*), its frame (frame.*) and the freshness of its results (post.*.fresh) are obligations of every property that has the unit, whatever the scope line selects",
	"struct values written or read as a whole (EFI_TIME, EFI_GUID, the device path header) are encoded in declaration order with the declared widths, as encoding/binary does; the layout of the specification is pinned separately by ghost lemmas (verifLemmaWireLayout, verifLemmaHeaderLayout)",
}

func cmdCheck(args []string) int {
	fs := flag.NewFlagSet("check", flag.ExitOnError)
	tier := fs.String("tier", "quick", "")
	root := fs.String("repo", repoRoot, "")
	dump := fs.String("dump", "", "")
	dumpall := fs.Bool("dumpall", false, "with --dump: write every query of the property and exit without solving")
	out := fs.String("out", "", "write evidence and replay files under this directory instead of /verif")
	nocorpus := fs.Bool("nocorpus", false, "thorough tier: skip the must-fail corpus")
	if len(args) < 1 {
		fmt.Println("usage: vfy check <id> [--tier quick|thorough]")
		return 2
	}
	id := args[0]
	fs.Parse(args[1:])
	repoRoot = *root
	if *out != "" {
		outRoot = *out
	}
	if t := os.Getenv("VERIF_TIER"); t != "" && *tier == "quick" {
		*tier = t
	}
	seed, _ := strconv.Atoi(os.Getenv("VERIF_SEED"))
	t0 := time.Now()
	evPath := filepath.Join(outRoot, "evidence", id+".json")
	os.MkdirAll(filepath.Dir(evPath), 0o755)
	os.Remove(evPath)
	os.RemoveAll(filepath.Join(outRoot, "replays", id))

	scope, err := loadScope(id)
	if err != nil {
		fmt.Println("BROKEN scope:", err)
		return 2
	}
	findings, err := loadFindings()
	if err != nil {
		fmt.Println("BROKEN findings:", err)
		return 2
	}
	l, err := loadRepo(*root)
	if err != nil {
		// the tree does not build with the contract files: report as a violation of every claimed property
		fmt.Println("load failed:", err)
		rp := writeReplay(id, "load", map[string]interface{}{"property": id, "obligation": "load", "error": err.Error(), "reproduced": false})
		fmt.Printf("VIOLATION property=%s replay=%s no-failing-input-found\n", id, rp)
		return 1
	}
	x, err := newExec(l)
	if err != nil {
		fmt.Println("contracts:", err)
		rp := writeReplay(id, "contracts", map[string]interface{}{"property": id, "obligation": "contracts", "error": err.Error(), "reproduced": false})
		fmt.Printf("VIOLATION property=%s replay=%s no-failing-input-found\n", id, rp)
		return 1
	}
	// a function that carries a clause labelled for this property but is no unit of its scope would have
	// that clause assumed by its callers and proved by nobody: refuse to run
	inScope := map[string]bool{}
	for _, su := range scope {
		inScope[su.Func] = true
	}
	for name, c := range x.contracts {
		parent := name
		if i := strings.Index(name, "$"); i >= 0 {
			parent = name[:i]
		}
		if inScope[name] || inScope[parent] {
			continue
		}
		var cls []*Clause
		cls = append(cls, c.Ensures...)
		for _, l := range c.Loops {
			cls = append(cls, l...)
		}
		for _, cl := range cls {
			for _, pr := range cl.Props {
				if pr == id {
					fmt.Printf("BROKEN scope: %s has a clause [%s] but is not a unit of props/%s.scope\n", name, cl.Label, id)
					return 2
				}
			}
		}
	}
	// generate
	type unitInfo struct {
		su    scopeUnit
		q0    int
		q1    int
		paths int
	}
	var units []unitInfo
	missing := []string{}
	for _, su := range scope {
		fn, ok := l.funcs[su.Func]
		if !ok {
			missing = append(missing, su.Func)
			continue
		}
		q0 := len(x.queries)
		x.faulty = su.Faulty
		x.verifyUnit(fn)
		units = append(units, unitInfo{su, q0, len(x.queries), x.pathN})
	}
	// select
	var qs []*Query
	trivial := 0
	for _, u := range units {
		for _, q := range x.queries[u.q0:u.q1] {
			if belongs(q, id, u.su) {
				qs = append(qs, q)
			}
		}
	}
	for name, n := range x.trivial {
		_ = name
		trivial += n
	}
	genS := time.Since(t0).Seconds()
	if *dumpall && *dump != "" {
		for i, q := range qs {
			dumpQuery(*dump, x, q, i)
		}
		fmt.Printf("dumped %d queries to %s\n", len(qs), *dump)
		return 0
	}
	// an obligation listed as an open known finding is expected not to discharge: it gets one
	// short attempt (enough to notice that it has started to hold) instead of the full time-out and retry
	for _, q := range qs {
		for _, f := range findings {
			if f.Status == "open" && f.matches(id, q.Name) {
				if q.Meta == nil {
					q.Meta = map[string]string{}
				}
				q.Meta["knownopen"] = "1"
			}
		}
	}
	res := x.dischargeAll(qs, *tier, 16)
	agg := aggregate(res)

	// classify
	var violations []string
	var known []string
	discharged := 0
	total := 0
	byKind := map[string]int{}
	byBackend := map[string]int{}
	solverS := 0.0
	slowest := ""
	slowestS := 0.0
	smokeN, smokeBad := 0, 0
	slowQ, slowQS, retried := "", 0.0, 0
	var samples []map[string]interface{}
	broken := false
	for _, a := range agg {
		solverS += a.secs
		if a.secs > slowestS {
			slowestS, slowest = a.secs, a.name
		}
		if a.smoke {
			smokeN++
			if !a.ok {
				smokeBad++
				broken = true
				fmt.Printf("VACUOUS %s (%s)\n", a.name, a.answer)
			}
			continue
		}
		total++
		if a.maxq > slowQS {
			slowQS, slowQ = a.maxq, a.name
		}
		retried += a.retried
		byKind[a.kind]++
		if a.ok {
			discharged++
			byBackend[a.backend]++
			if len(samples) < 3 {
				samples = append(samples, map[string]interface{}{"obligation": a.name, "paths": a.n, "answer": "unsat", "backend": a.backend, "seconds": round3(a.secs)})
			}
			continue
		}
		for _, r := range a.results {
			if r.Answer == "error" {
				broken = true
				fmt.Printf("SOLVER-ERROR %s: %s\n", a.name, firstLines(r.Output, 3))
				break
			}
		}
		isKnown := false
		for _, f := range findings {
			if f.Status == "open" && f.matches(id, a.name) {
				isKnown = true
				known = append(known, fmt.Sprintf("KNOWN-FINDING: property=%s %s — %s", id, a.name, f.What))
				break
			}
		}
		if isKnown {
			continue
		}
		rp := x.replayFailure(id, a, *dump)
		violations = append(violations, rp)
	}
	// out-of-subset paths and missing functions are undecided obligations: report
	oos := uniq(x.oos)
	for _, m := range missing {
		oos = append(oos, "function in the property's cone no longer exists: "+m)
	}
	for _, o := range oos {
		isKnown := false
		for _, f := range findings {
			if f.Status == "open" && f.matches(id, "oos:"+o) {
				isKnown = true
			}
		}
		if isKnown {
			continue
		}
		short := strings.TrimPrefix(o, modPath+"/")
		if len(short) > 80 {
			short = short[:80]
		}
		hh := fnv.New32a()
		hh.Write([]byte(o))
		rp := writeReplay(id, fmt.Sprintf("subset_%s_%08x", sanitize(short), hh.Sum32()), map[string]interface{}{"property": id, "obligation": "subset", "detail": o, "reproduced": false,
			"explanation": "a function in the property's cone left the verified subset (or lost its contract): its obligations can no longer be generated, so the property is undecided"})
		violations = append(violations, fmt.Sprintf("VIOLATION property=%s replay=%s no-failing-input-found", id, rp))
	}
	// bounded stand-ins (never counted as discharged obligations)
	var boundedEv []map[string]interface{}
	boundTier = *tier
	for _, b := range scopeBounded[id] {
		r := runBounded(b)
		boundedEv = append(boundedEv, map[string]interface{}{"function_under_check": b.Test, "file": "/verif/bounded/" + b.File, "package": b.PkgDir,
			"bound": b.Bound, "cases": r.Cases, "passed": r.Passed, "seconds": r.Seconds, "counted_as_proved": false})
		if !r.Passed {
			rp := writeReplay(id, "bounded_"+b.Test, map[string]interface{}{"property": id, "obligation": "bounded:" + b.Test, "kind": "bounded",
				"bounded": b, "reproduced": true, "output": firstLines(r.Log, 40),
				"explanation": "the bounded stand-in failed on the current tree: the line VFY-BOUNDED FAIL names the failing case"})
			violations = append(violations, fmt.Sprintf("VIOLATION property=%s replay=%s", id, rp))
		}
	}
	if total == 0 {
		broken = true
		fmt.Println("BROKEN: zero obligations generated")
	}
	// evidence
	var tb []string
	for n := range x.extUsed {
		if d, ok := externDoc[n]; ok {
			tb = append(tb, "assumed contract "+n+": "+d)
		} else {
			tb = append(tb, "assumed/unknown external: "+n)
		}
	}
	sort.Strings(tb)
	var fnames []string
	for _, u := range units {
		c := "no written contract (automatic obligations only)"
		if x.contracts[u.su.Func] != nil {
			c = "contract"
		}
		fnames = append(fnames, strings.TrimPrefix(u.su.Func, modPath+"/")+" ["+c+"]")
	}
	var notes []string
	for n := range x.notes {
		notes = append(notes, n)
	}
	sort.Strings(notes)
	ev := evidence{PropertyID: id, Tier: *tier, Seed: seed, Level: "proof", WallS: round3(time.Since(t0).Seconds()), Violations: len(violations)}
	ev.Coverage = map[string]interface{}{
		"obligations":                   total - len(known),
		"known_finding_obligations":     len(known),
		"discharged":                    discharged,
		"checker_cmd":                   fmt.Sprintf("/verif/bin/vfy check %s --tier %s", id, *tier),
		"trusted_base":                  tb,
		"functions_under_contract":      fnames,
		"obligations_by_kind":           byKind,
		"discharged_by_backend":         byBackend,
		"path_queries":                  len(qs),
		"folded_trivially_true":         trivial,
		"solver_seconds":                round3(solverS),
		"generation_seconds":            round3(genS),
		"slowest_obligation":            map[string]interface{}{"name": slowest, "seconds": round3(slowestS)},
		"slowest_path_query":            map[string]interface{}{"obligation": slowQ, "seconds": round3(slowQS), "timeout_seconds": map[string]int{"quick": 30, "thorough": 60}[*tier]},
		"queries_retried_after_timeout": retried,
		"smoke_checks":                  smokeN,
		"smoke_failed":                  smokeBad,
		"known_findings_hit":            known,
		"out_of_subset":                 oos,
		"modelling_notes":               notes,
		"bounded_standins":              boundedEv,
		"lemma_axioms":                  x.lemmaAxiomNames(),
		"samples":                       samples,
		"extraction_drops":              "text of error/log messages; identity of error values (nil-ness, errors.Is class and wrapped bit are kept); permission bits; timing; GC; stack depth",
		"explanation":                   propExplanation[id],
	}
	// thorough tier: the must-fail corpus - every recorded property-breaking change that this
	// property's check is known to detect is applied to a scratch copy of the tree under test and
	// must still be detected (a guard against a check that has gone vacuous)
	if *tier == "thorough" && !*nocorpus && !broken && len(violations) == 0 {
		mf := mustFailCorpus(id)
		ev.Coverage["must_fail_corpus"] = mf.summary
		for _, m := range mf.missed {
			fmt.Printf("BROKEN must-fail: the recorded change %s is no longer detected by the check of %s\n", m, id)
			broken = true
		}
	}
	ev.Assumptions = globalAssumptions
	data, _ := json.MarshalIndent(ev, "", " ")
	os.WriteFile(evPath, data, 0o644)

	for _, k := range known {
		fmt.Println(k)
	}
	fmt.Printf("property %s: %d obligations, %d discharged, %d known findings, %d violations, %d smoke checks, %.1fs\n", id, total, discharged, len(known), len(violations), smokeN, time.Since(t0).Seconds())
	if len(violations) > 0 {
		// undecided or refuted obligations are reported as such even when the run also had a
		// failed vacuity check or a solver error (changed code can produce both at once)
		for _, v := range violations {
			fmt.Println(v)
		}
		if broken {
			fmt.Println("NOTE: this run also had a failed vacuity check or a solver error (see the evidence file)")
		}
		return 1
	}
	if broken {
		// nothing failed but something passed for the wrong reason: not a pass
		fmt.Println("BROKEN: vacuity or solver error (see above)")
		return 2
	}
	return 0
}

var propExplanation = map[string]string{}

func round3(f float64) float64 { return float64(int(f*1000+0.5)) / 1000 }

func firstLines(s string, n int) string {
	ls := strings.Split(s, "\n")
	if len(ls) > n {
		ls = ls[:n]
	}
	return strings.Join(ls, " | ")
}

func writeReplay(id, name string, content map[string]interface{}) string {
	dir := filepath.Join(outRoot, "replays", id)
	os.MkdirAll(dir, 0o755)
	n := sanitize(name)
	if len(n) > 120 {
		n = n[len(n)-120:]
	}
	p := filepath.Join(dir, n+".json")
	data, _ := json.MarshalIndent(content, "", " ")
	os.WriteFile(p, data, 0o644)
	return p
}

// replayFailure writes the replay file for a failed obligation and tries to
// reproduce the solver's counterexample on the real code.
func (x *Exec) replayFailure(id string, a *aggOb, dump string) string {
	var fr *Result
	for _, r := range a.results {
		if r.Answer != "unsat" {
			fr = r
			if r.Model != "" {
				break
			}
		}
	}
	content := map[string]interface{}{
		"property":   id,
		"obligation": a.name,
		"kind":       a.kind,
		"position":   a.pos,
		"solver":     map[string]interface{}{"backend": fr.Backend, "answer": fr.Answer, "seconds": round3(fr.Seconds), "qf_answer": fr.QFAnswer},
		"goal":       fr.Q.Goal,
		"reproduced": false,
	}
	if fr.Model != "" {
		content["model"] = trimModel(fr.Model)
	}
	if fr.Output != "" {
		content["solver_output"] = firstLines(fr.Output, 20)
	}
	if dump != "" {
		content["smt_file"] = dumpQuery(dump, x, fr.Q, 0)
	}
	reproduced := false
	if rep := x.tryReplay(id, a, fr, content); rep {
		reproduced = true
	}
	content["reproduced"] = reproduced
	rp := writeReplay(id, strings.TrimPrefix(a.name, modPath+"/"), content)
	if reproduced {
		return fmt.Sprintf("VIOLATION property=%s replay=%s", id, rp)
	}
	return fmt.Sprintf("VIOLATION property=%s replay=%s no-failing-input-found", id, rp)
}

func trimModel(m string) string {
	if len(m) > 20000 {
		return m[:20000] + "…"
	}
	return m
}

var _ *ssa.Function
