package main

// Evaluation of contract expressions (Go expression syntax plus old(),
// forall(), ==>, spec functions and ghost accessors) to SMT terms, over the
// symbolic state of the executor.  Spec integers are mathematical.

import (
	"fmt"
	"go/ast"
	"go/constant"
	"go/token"
	"go/types"
	"math/big"
	"strconv"
	"strings"

	"golang.org/x/tools/go/ssa"
)

type SV struct {
	V Val
	T types.Type // Go type when known (nil for pure spec values)
}

type specEnv struct {
	facts []string // type facts of the values mentioned (always true; assumed before use)
	axioms []string // closed defining axioms of opaque predicates used
	predPkg string  // import path of the package whose predicate is being expanded
	x     *Exec
	st    *State
	old   *State
	fr    *Frame
	binds map[string]SV
	err   error
	loop  *Loop
	renaming bool // resolving a renamed variable (no second attempt)
}

func (e *specEnv) fail(f string, a ...interface{}) SV {
	if e.err == nil {
		e.err = fmt.Errorf(f, a...)
	}
	return SV{V: TV{SBool, "false"}}
}

func (x *Exec) newEnv(st *State, fr *Frame, binds map[string]SV) *specEnv {
	f := fr
	return &specEnv{x: x, st: st, old: f.entry, fr: f, binds: binds, loop: f.curLoop}
}

// evalLemma evaluates an auxiliary clause; ok is false where it cannot be stated (a local it
// mentions has no value on this path), in which case the path simply goes without it.
func (x *Exec) evalLemma(st *State, fr *Frame, cl *Clause, binds map[string]SV) (string, bool) {
	e := x.newEnv(st, fr, binds)
	v := e.eval(cl.Expr)
	if e.err != nil {
		return "", false
	}
	tv, ok := v.V.(TV)
	if !ok || tv.S != SBool {
		return "", false
	}
	for _, f := range e.facts {
		if !strings.Contains(f, "q_") {
			st.assume(f)
		}
	}
	for _, a := range e.axioms {
		st.assume(a)
	}
	return tv.E, true
}

// evalAssume evaluates a clause that is about to be ASSUMED (an invariant at a loop head, a
// callee's postcondition, a precondition of the unit). A clause that cannot be evaluated (it names
// something the code no longer has) is reported as out of subset and assumed to be `true`:
// assuming `false` would make everything behind it pass vacuously.
func (x *Exec) evalAssume(st *State, fr *Frame, cl *Clause, binds map[string]SV) string {
	n := len(x.oos)
	g := x.evalClause(st, fr, cl, binds)
	if len(x.oos) > n && g == "false" {
		return "true"
	}
	return g
}

// evalClause evaluates a boolean clause to an SMT term (for an obligation: `false` if it cannot be evaluated).
func (x *Exec) evalClause(st *State, fr *Frame, cl *Clause, binds map[string]SV) string {
	e := x.newEnv(st, fr, binds)
	v := e.eval(cl.Expr)
	if e.err != nil {
		x.oos = append(x.oos, fmt.Sprintf("%s:%d: cannot evaluate clause [%s]: %v", cl.File, cl.Line, cl.Label, e.err))
		return "false"
	}
	for _, f := range e.facts {
		if !strings.Contains(f, "q_") { // facts about quantified variables cannot be hoisted
			st.assume(f)
		}
	}
	for _, a := range e.axioms {
		st.assume(a)
	}
	tv, ok := v.V.(TV)
	if !ok || tv.S != SBool {
		x.oos = append(x.oos, fmt.Sprintf("%s:%d: clause [%s] is not boolean", cl.File, cl.Line, cl.Label))
		return "false"
	}
	return tv.E
}

func (x *Exec) evalTerm(st *State, fr *Frame, cl *Clause, binds map[string]SV) string {
	e := x.newEnv(st, fr, binds)
	v := e.eval(cl.Expr)
	if e.err != nil {
		x.oos = append(x.oos, fmt.Sprintf("%s:%d: cannot evaluate: %v", cl.File, cl.Line, e.err))
		return "0"
	}
	return e.term(v)
}

func (e *specEnv) term(v SV) string {
	switch u := v.V.(type) {
	case TV:
		return u.E
	case ErrV:
		return u.Class
	case PtrV:
		if u.Nil {
			return "0"
		}
		if u.Ref != "" && len(u.Path) == 0 {
			return u.Ref
		}
	case SliceV:
		return e.x.peek(e.st, u)
	case IfaceV:
		if u.Sym != "" {
			return u.Sym
		}
		if u.Dyn == nil {
			return "0"
		}
		if p, ok := u.Payload.(PtrV); ok && p.Ref != "" {
			return p.Ref
		}
	case nil:
		return "0"
	}
	e.fail("value %T has no SMT term", v.V)
	return "0"
}

func (e *specEnv) sortOf(v SV) string {
	switch u := v.V.(type) {
	case TV:
		return u.S
	case SliceV:
		if v.T != nil {
			return e.x.w.SortOf(v.T)
		}
		if tv, ok := e.st.cells[u.Cell].(TV); ok {
			return tv.S
		}
	}
	return SInt
}

func (e *specEnv) boolOf(v SV) string {
	if tv, ok := v.V.(TV); ok && tv.S == SBool {
		return tv.E
	}
	e.fail("expected boolean, got %v", describeVal(v.V))
	return "false"
}

func (e *specEnv) withState(st *State, f func() SV) SV {
	saved := e.st
	e.st = st
	defer func() { e.st = saved }()
	return f()
}

func (e *specEnv) eval(ex ast.Expr) SV {
	if e.err != nil {
		return SV{V: TV{SBool, "false"}}
	}
	switch n := ex.(type) {
	case *ast.ParenExpr:
		return e.eval(n.X)
	case *ast.BasicLit:
		switch n.Kind {
		case token.INT:
			v, ok := new(big.Int).SetString(n.Value, 0)
			if !ok {
				return e.fail("bad int literal %s", n.Value)
			}
			return SV{V: TV{SInt, numLit(v)}}
		case token.STRING:
			s, _ := strconv.Unquote(n.Value)
			return SV{V: TV{SSeqI, e.x.w.StrLit(s)}, T: types.Typ[types.String]}
		case token.CHAR:
			s, _ := strconv.Unquote(n.Value)
			return SV{V: TV{SInt, num(int64(s[0]))}}
		}
		return e.fail("literal %s", n.Value)
	case *ast.Ident:
		return e.ident(n.Name)
	case *ast.SelectorExpr:
		return e.selector(n)
	case *ast.StarExpr:
		p := e.eval(n.X)
		return e.deref(p)
	case *ast.UnaryExpr:
		v := e.eval(n.X)
		switch n.Op {
		case token.NOT:
			return SV{V: TV{SBool, tNot(e.boolOf(v))}}
		case token.SUB:
			return SV{V: TV{SInt, tNeg(e.term(v))}}
		case token.AND:
			return e.fail("address-of is not a spec expression")
		}
		return e.fail("unary %s", n.Op)
	case *ast.BinaryExpr:
		return e.binary(n)
	case *ast.IndexExpr:
		s := e.eval(n.X)
		i := e.term(e.eval(n.Index))
		return e.index(s, i)
	case *ast.SliceExpr:
		s := e.eval(n.X)
		sort := e.sortOf(s)
		t := e.term(s)
		lo := "0"
		if n.Low != nil {
			lo = e.term(e.eval(n.Low))
		}
		hi := sLen(sort, t)
		if n.High != nil {
			hi = e.term(e.eval(n.High))
		}
		return SV{V: TV{sort, sSl(sort, t, lo, hi)}, T: sliceTypeOf(s.T)}
	case *ast.CallExpr:
		return e.call(n)
	}
	return e.fail("unsupported spec expression %T", ex)
}

func sliceTypeOf(t types.Type) types.Type {
	if t == nil {
		return nil
	}
	switch u := t.Underlying().(type) {
	case *types.Array:
		return types.NewSlice(u.Elem())
	}
	return t
}

func (e *specEnv) index(s SV, i string) SV {
	sort := e.sortOf(s)
	t := e.term(s)
	var et types.Type
	if s.T != nil {
		switch u := s.T.Underlying().(type) {
		case *types.Slice:
			et = u.Elem()
		case *types.Array:
			et = u.Elem()
		case *types.Basic:
			et = types.Typ[types.Uint8]
		}
	}
	el := TV{e.x.w.ElemSort(sort), sIdx(sort, t, i)}
	if et != nil {
		return SV{V: e.wrapTyped(el, et), T: et}
	}
	return SV{V: el}
}

// wrapTyped: like fromTV but without adding assumptions (spec context).
func (e *specEnv) wrapTyped(tv TV, t types.Type) Val {
	switch u := t.Underlying().(type) {
	case *types.Pointer:
		return PtrV{Ref: tv.E, RootSort: e.x.w.SortOf(u.Elem()), Elem: u.Elem()}
	case *types.Interface:
		if isErrorType(t) {
			return ErrV{Class: tv.E, Wrapped: "false"}
		}
		return IfaceV{Sym: tv.E, Static: t}
	}
	return tv
}

func (e *specEnv) deref(p SV) SV {
	pv, ok := p.V.(PtrV)
	if !ok {
		return e.fail("dereference of non-pointer %s", describeVal(p.V))
	}
	var elem types.Type = pv.Elem
	switch {
	case pv.Cell != nil:
		cur := e.st.cells[pv.Cell]
		if cur == nil && e.old != nil {
			cur = e.old.cells[pv.Cell]
		}
		if len(pv.Path) == 0 {
			return SV{V: cur, T: elem}
		}
		if tv, ok := cur.(TV); ok {
			return SV{V: e.wrapTyped(e.x.pathGetTV(e.st, tv, pv.Path), elem), T: elem}
		}
		return SV{V: e.x.load(e.st, pv), T: elem}
	case pv.Ref != "":
		root := TV{pv.RootSort, e.st.heapSelect(pv.RootSort, pv.Ref)}
		return SV{V: e.wrapTyped(e.x.pathGetTV(e.st, root, pv.Path), elem), T: elem}
	case pv.Imm != nil:
		return SV{V: e.wrapTyped(e.x.pathGetTV(e.st, *pv.Imm, pv.Path), elem), T: elem}
	case pv.Nil && elem != nil:
		// spec expressions are total: *nil is some unspecified value
		sort := e.x.w.SortOf(elem)
		if isStructLike(elem) {
			return SV{V: e.wrapTyped(TV{sort, e.st.heapSelect(sort, "0")}, elem), T: elem}
		}
	}
	return e.fail("dereference of nil in spec")
}

func (e *specEnv) ident(name string) SV {
	switch name {
	case "true", "false":
		return SV{V: TV{SBool, name}}
	case "nil":
		return SV{V: PtrV{Nil: true}}
	}
	if v, ok := e.binds[name]; ok {
		return v
	}
	fn := e.fr.fn
	// a parameter that was reassigned: outside old() its current value counts
	if e.st != e.old {
		if nr, ok := e.fr.names[name]; ok {
			if _, isParam := nr.v.(*ssa.Parameter); !isParam && !nr.addr {
				for _, p := range fn.Params {
					if p.Name() == name {
						if pv, ok := e.fr.vals[nr.v]; ok {
							return SV{V: pv, T: nr.v.Type()}
						}
					}
				}
			}
		}
	}
	// parameters and free variables
	for _, p := range fn.Params {
		if p.Name() == name {
			return SV{V: e.fr.vals[p], T: p.Type()}
		}
	}
	for _, fv := range fn.FreeVars {
		if fv.Name() == name {
			// captured variables are pointers to the variable: auto-deref
			ptr := SV{V: e.fr.vals[fv], T: fv.Type()}
			return e.deref(ptr)
		}
	}
	if name == "iter" && e.loop != nil && e.loop.rangeIdx != nil {
		i := e.x.toTV(e.st, e.fr.vals[e.loop.rangeIdx], e.loop.rangeIdx.Type())
		return SV{V: TV{SInt, tAdd(i.E, "1")}}
	}
	// source-level names (debug info): the value most recently bound to the identifier
	if nr, ok := e.fr.names[name]; ok {
		if pv, ok := e.fr.vals[nr.v]; ok {
			if nr.addr {
				return e.deref(SV{V: pv, T: nr.v.Type()})
			}
			return SV{V: pv, T: nr.v.Type()}
		}
		if c, ok := nr.v.(*ssa.Const); ok {
			return SV{V: e.x.constVal(e.st, c), T: c.Type()}
		}
	}
	// named local variables: address-taken (Alloc) or loop-carried (Phi)
	for _, b := range fn.Blocks {
		for _, in := range b.Instrs {
			switch v := in.(type) {
			case *ssa.Alloc:
				if v.Comment == name {
					if pv, ok := e.fr.vals[v]; ok {
						return e.deref(SV{V: pv, T: v.Type()})
					}
				}
			case *ssa.Phi:
				if v.Comment == name {
					if pv, ok := e.fr.vals[v]; ok {
						return SV{V: pv, T: v.Type()}
					}
				}
			}
		}
	}
	// package level
	pkg := fn.Pkg
	if pkg == nil && fn.Parent() != nil {
		pkg = fn.Parent().Pkg
	}
	if pkg != nil {
		if sv, ok := e.member(pkg, name); ok {
			return sv
		}
	}
	// inside a predicate of another package: that package's names
	if e.predPkg != "" && fn.Prog != nil {
		if hp := fn.Prog.ImportedPackage(e.predPkg); hp != nil {
			if sv, ok := e.member(hp, name); ok {
				return sv
			}
		}
	}
	// a variable that was only renamed since the contracts were written (see names.go)
	if !e.renaming {
		if nn := e.x.renamedTo(fn, name); nn != "" {
			e.renaming = true
			v := e.ident(nn)
			e.renaming = false
			return v
		}
	}
	return e.fail("unknown identifier %q", name)
}

func (e *specEnv) member(pkg *ssa.Package, name string) (SV, bool) {
	m := pkg.Members[name]
	switch mm := m.(type) {
	case *ssa.NamedConst:
		return SV{V: e.x.constVal(e.st, mm.Value), T: mm.Type()}, true
	case *ssa.Global:
		t := mm.Type().Underlying().(*types.Pointer).Elem()
		return SV{V: e.x.globalLoad(e.st, mm), T: t}, true
	}
	return SV{}, false
}

func (e *specEnv) selector(n *ast.SelectorExpr) SV {
	// package-qualified name?
	if id, ok := n.X.(*ast.Ident); ok {
		if _, bound := e.binds[id.Name]; !bound {
			fn := e.fr.fn
			pkg := fn.Pkg
			if pkg == nil && fn.Parent() != nil {
				pkg = fn.Parent().Pkg
			}
			if pkg != nil && !e.isLocalName(id.Name) {
				for _, imp := range pkg.Pkg.Imports() {
					if imp.Name() == id.Name {
						sp := e.x.prog.Package(imp)
						if sp != nil {
							if sv, ok := e.member(sp, n.Sel.Name); ok {
								return sv
							}
						}
						return e.fail("unknown package member %s.%s", id.Name, n.Sel.Name)
					}
				}
				// well-known packages not imported by the package under contract
				for _, sp := range e.x.prog.AllPackages() {
					if sp.Pkg.Name() == id.Name {
						if sv, ok := e.member(sp, n.Sel.Name); ok {
							return sv
						}
					}
				}
			}
		}
	}
	base := e.eval(n.X)
	return e.field(base, n.Sel.Name)
}

func (e *specEnv) isLocalName(name string) bool {
	fn := e.fr.fn
	for _, p := range fn.Params {
		if p.Name() == name {
			return true
		}
	}
	for _, p := range fn.FreeVars {
		if p.Name() == name {
			return true
		}
	}
	for _, b := range fn.Blocks {
		for _, in := range b.Instrs {
			switch v := in.(type) {
			case *ssa.Alloc:
				if v.Comment == name {
					return true
				}
			case *ssa.Phi:
				if v.Comment == name {
					return true
				}
			}
		}
	}
	return false
}

func (e *specEnv) field(base SV, name string) SV {
	// auto-deref pointers
	if pv, ok := base.V.(PtrV); ok {
		base = e.deref(SV{V: pv, T: base.T})
		if e.err != nil {
			return base
		}
	}
	tv, ok := base.V.(TV)
	if !ok {
		return e.fail("field %s of non-struct %s", name, describeVal(base.V))
	}
	d := e.x.w.DTByName(tv.S)
	if d == nil {
		return e.fail("field %s of sort %s", name, tv.S)
	}
	i := d.FieldIndex(name)
	if i < 0 {
		// promoted fields through embedded structs
		for k, f := range d.Fields {
			if inner := e.x.w.DTByName(f.Sort); inner != nil && inner.FieldIndex(name) >= 0 {
				return e.field(SV{V: TV{f.Sort, d.Get(k, tv.E)}, T: f.Type}, name)
			}
		}
		return e.fail("no field %s in %s", name, d.Name)
	}
	f := d.Fields[i]
	el := TV{f.Sort, d.Get(i, tv.E)}
	if f.Type != nil {
		if r, ok := intRangeOf(f.Type); ok {
			e.facts = append(e.facts, r.inRange(el.E))
		} else if at, ok := f.Type.Underlying().(*types.Array); ok {
			e.facts = append(e.facts, tEq(sLen(f.Sort, el.E), num(at.Len())))
			if isByteElem(at.Elem()) {
				e.facts = append(e.facts, app("g_isbytes", el.E))
			}
		} else if sl, ok := f.Type.Underlying().(*types.Slice); ok && isByteElem(sl.Elem()) {
			e.facts = append(e.facts, app("g_isbytes", el.E))
		} else if _, ok := f.Type.Underlying().(*types.Pointer); ok && e.st != nil && e.st.top != "" && !strings.Contains(el.E, "q_") {
			// a stored reference points to an object allocated before the state it is read in
			e.facts = append(e.facts, tAnd(tCmp("<=", "0", el.E), tCmp("<", el.E, e.st.top)))
		}
		return SV{V: e.wrapTyped(el, f.Type), T: f.Type}
	}
	return SV{V: el}
}

func (e *specEnv) binary(n *ast.BinaryExpr) SV {
	switch n.Op {
	case token.LAND:
		return SV{V: TV{SBool, tAnd(e.boolOf(e.eval(n.X)), e.boolOf(e.eval(n.Y)))}}
	case token.LOR:
		return SV{V: TV{SBool, tOr(e.boolOf(e.eval(n.X)), e.boolOf(e.eval(n.Y)))}}
	}
	a := e.eval(n.X)
	b := e.eval(n.Y)
	if e.err != nil {
		return a
	}
	switch n.Op {
	case token.EQL, token.NEQ:
		eq := e.equal(a, b)
		if n.Op == token.NEQ {
			eq = tNot(eq)
		}
		return SV{V: TV{SBool, eq}}
	}
	at, bt := e.term(a), e.term(b)
	switch n.Op {
	case token.ADD:
		if e.sortOf(a) != SInt && e.sortOf(a) != SBool {
			s := e.sortOf(a)
			return SV{V: TV{s, sApp(s, at, bt)}, T: a.T}
		}
		return SV{V: TV{SInt, tAdd(at, bt)}}
	case token.SUB:
		return SV{V: TV{SInt, tSub(at, bt)}}
	case token.MUL:
		_, oa := isNum(at)
		_, ob := isNum(bt)
		if oa || ob {
			return SV{V: TV{SInt, tMulC(at, bt)}}
		}
		// a product of two symbolic values goes through g_mul (defined as the product, with the
		// divisibility facts attached to the term), like the products of the code
		return SV{V: TV{SInt, app("g_mul", at, bt)}}
	case token.QUO:
		if d, ok := isNum(bt); ok && d.Sign() > 0 {
			return SV{V: TV{SInt, tDivC(at, d)}}
		}
		return SV{V: TV{SInt, app("div", at, bt)}}
	case token.REM:
		if d, ok := isNum(bt); ok && d.Sign() > 0 {
			return SV{V: TV{SInt, tModC(at, d)}}
		}
		return SV{V: TV{SInt, app("mod", at, bt)}}
	case token.LSS:
		return SV{V: TV{SBool, tCmp("<", at, bt)}}
	case token.LEQ:
		return SV{V: TV{SBool, tCmp("<=", at, bt)}}
	case token.GTR:
		return SV{V: TV{SBool, tCmp(">", at, bt)}}
	case token.GEQ:
		return SV{V: TV{SBool, tCmp(">=", at, bt)}}
	case token.AND:
		r, _ := rangeOfBasic(types.Typ[types.Uint64])
		return SV{V: TV{SInt, e.x.bitop(e.st, token.AND, at, bt, r)}}
	case token.OR:
		r, _ := rangeOfBasic(types.Typ[types.Uint64])
		return SV{V: TV{SInt, e.x.bitop(e.st, token.OR, at, bt, r)}}
	}
	return e.fail("binary operator %s", n.Op)
}

func (e *specEnv) equal(a, b SV) string {
	// nil comparisons
	if pa, ok := a.V.(PtrV); ok && pa.Nil {
		a, b = b, a
	}
	if pb, ok := b.V.(PtrV); ok && pb.Nil {
		switch av := a.V.(type) {
		case ErrV:
			return tEq(av.Class, "0")
		case PtrV:
			if av.Nil {
				return "true"
			}
			if av.Cell != nil {
				return "false"
			}
			return tEq(e.term(a), "0")
		case IfaceV:
			if av.Sym != "" {
				return tEq(av.Sym, "0")
			}
			return tBool(av.Dyn == nil)
		case TV:
			if _, isSeq := e.x.w.seqSorts[av.S]; isSeq {
				return tEq(sLen(av.S, av.E), "0")
			}
			return tEq(av.E, "0")
		case SliceV:
			return tEq(tSub(av.Hi, av.Lo), "0")
		case nil:
			return "true"
		}
	}
	if ea, ok := a.V.(ErrV); ok {
		if eb, ok := b.V.(ErrV); ok {
			return tEq(ea.Class, eb.Class)
		}
	}
	return tEq(e.term(a), e.term(b))
}

func (e *specEnv) call(n *ast.CallExpr) SV {
	name := ""
	switch f := n.Fun.(type) {
	case *ast.Ident:
		name = f.Name
	case *ast.SelectorExpr:
		if id, ok := f.X.(*ast.Ident); ok {
			name = id.Name + "." + f.Sel.Name
		}
	}
	arg := func(i int) SV { return e.eval(n.Args[i]) }
	switch name {
	case "imp__":
		return SV{V: TV{SBool, tImp(e.boolOf(arg(0)), e.boolOf(arg(1)))}}
	case "iff__":
		return SV{V: TV{SBool, tEq(e.boolOf(arg(0)), e.boolOf(arg(1)))}}
	case "old":
		if e.old == nil {
			return e.fail("old() without entry state")
		}
		return e.withState(e.old, func() SV { return e.eval(n.Args[0]) })
	case "len":
		v := arg(0)
		switch u := v.V.(type) {
		case SliceV:
			return SV{V: TV{SInt, tSub(u.Hi, u.Lo)}}
		case nil:
			return SV{V: TV{SInt, "0"}}
		}
		s := e.sortOf(v)
		if v.T != nil {
			if at, ok := v.T.Underlying().(*types.Array); ok {
				return SV{V: TV{SInt, num(at.Len())}}
			}
		}
		return SV{V: TV{SInt, sLen(s, e.term(v))}}
	case "forall", "exists":
		// forall(i, lo, hi, body): lo <= i < hi
		id, ok := n.Args[0].(*ast.Ident)
		if !ok || len(n.Args) != 4 {
			return e.fail("%s(i, lo, hi, body)", name)
		}
		lo := e.term(arg(1))
		hi := e.term(arg(2))
		e.x.freshN++
		bv := fmt.Sprintf("q_%s_%d", id.Name, e.x.freshN)
		saved, had := e.binds[id.Name]
		if e.binds == nil {
			e.binds = map[string]SV{}
		}
		e.binds[id.Name] = SV{V: TV{SInt, bv}}
		body := e.boolOf(e.eval(n.Args[3]))
		if had {
			e.binds[id.Name] = saved
		} else {
			delete(e.binds, id.Name)
		}
		rng := tAnd(tCmp("<=", lo, bv), tCmp("<", bv, hi))
		if name == "forall" {
			if pats := idxPatterns(body, bv); len(pats) > 0 {
				var ps strings.Builder
				for _, p := range pats {
					ps.WriteString(" :pattern (" + p + ")")
				}
				return SV{V: TV{SBool, fmt.Sprintf("(forall ((%s Int)) (! %s%s))", bv, tImp(rng, body), ps.String())}}
			}
			// every index is the bound variable plus a constant (a quantifier over a window of a
			// longer sequence after slice folding): quantify over the shifted variable instead, so
			// that a plain index term can be the trigger
			if c, ok := shiftedIndex(body, bv); ok {
				full := tImp(rng, body)
				q2 := bv + "s"
				shifted := strings.ReplaceAll(full, "(+ "+bv+" "+c+")", q2)
				shifted = replaceWord(shifted, bv, "(- "+q2+" "+c+")")
				if pats := idxPatterns(shifted, q2); len(pats) > 0 {
					var ps strings.Builder
					for _, p := range pats {
						ps.WriteString(" :pattern (" + p + ")")
					}
					return SV{V: TV{SBool, fmt.Sprintf("(forall ((%s Int)) (! %s%s))", q2, shifted, ps.String())}}
				}
			}
			return SV{V: TV{SBool, fmt.Sprintf("(forall ((%s Int)) %s)", bv, tImp(rng, body))}}
		}
		return SV{V: TV{SBool, fmt.Sprintf("(exists ((%s Int)) %s)", bv, tAnd(rng, body))}}
	case "existsref":
		// existsref(a, T, body): some object of struct type T (of the unit's package) allocated by
		// now satisfies body; a is bound to a non-nil *T
		id, ok := n.Args[0].(*ast.Ident)
		tid, ok2 := n.Args[1].(*ast.Ident)
		qual := ""
		if sel, isSel := n.Args[1].(*ast.SelectorExpr); isSel { // pkg.T of an imported package
			if q, isId := sel.X.(*ast.Ident); isId {
				qual, tid, ok2 = q.Name, sel.Sel, true
			}
		}
		if !ok || !ok2 || len(n.Args) != 3 {
			return e.fail("existsref(a, T, body)")
		}
		var pkg *types.Package
		if e.fr != nil && e.fr.fn != nil && e.fr.fn.Pkg != nil {
			pkg = e.fr.fn.Pkg.Pkg
		} else if e.x.unit != nil && e.x.unit.Pkg != nil {
			pkg = e.x.unit.Pkg.Pkg
		}
		var obj types.Object
		if pkg != nil && qual != "" {
			for _, imp := range pkg.Imports() {
				if imp.Name() == qual {
					obj = imp.Scope().Lookup(tid.Name)
				}
			}
		} else if pkg != nil {
			obj = pkg.Scope().Lookup(tid.Name)
			if obj == nil && e.x.unit != nil && e.x.unit.Pkg != nil {
				obj = e.x.unit.Pkg.Pkg.Scope().Lookup(tid.Name)
			}
		}
		tn, isT := obj.(*types.TypeName)
		if !isT || !isStructLike(tn.Type()) {
			return e.fail("existsref: %s is not a struct type of the package", tid.Name)
		}
		e.x.freshN++
		bv := fmt.Sprintf("q_%s_%d", id.Name, e.x.freshN)
		saved, had := e.binds[id.Name]
		if e.binds == nil {
			e.binds = map[string]SV{}
		}
		sort := e.x.w.SortOf(tn.Type())
		e.binds[id.Name] = SV{V: PtrV{Ref: bv, RootSort: sort, Elem: tn.Type()}, T: types.NewPointer(tn.Type())}
		body := e.boolOf(e.eval(n.Args[2]))
		if had {
			e.binds[id.Name] = saved
		} else {
			delete(e.binds, id.Name)
		}
		return SV{V: TV{SBool, fmt.Sprintf("(exists ((%s Int)) %s)", bv, tAnd(tCmp("<", "0", bv), tCmp("<", bv, e.st.top), body))}}
	case "is": // is(err, target): errors.Is class test
		a := arg(0)
		b := arg(1)
		ea, ok1 := a.V.(ErrV)
		eb, ok2 := b.V.(ErrV)
		if !ok1 || !ok2 {
			return e.fail("is() needs error values")
		}
		return SV{V: TV{SBool, tEq(ea.Class, eb.Class)}}
	case "rem", "out":
		v := arg(0)
		s, ok := e.x.ghostSeq(e.st, v.V, name)
		if !ok {
			return e.fail("%s() of %s", name, describeVal(v.V))
		}
		return SV{V: TV{SSeqI, s}, T: types.NewSlice(types.Typ[types.Uint8])}
	case "int", "int64", "uint64", "uint32", "uint16", "uint8", "int32", "int16", "int8", "uint", "byte":
		v := arg(0)
		t := e.term(v)
		bt := types.Universe.Lookup(name).Type()
		if v.T != nil {
			if fr1, ok := intRangeOf(v.T); ok {
				if tr, ok := intRangeOf(bt); ok && !tr.contains(fr1) {
					return SV{V: TV{SInt, tr.wrap(t)}, T: bt}
				}
			}
			return SV{V: TV{SInt, t}, T: bt}
		}
		return SV{V: TV{SInt, t}, T: bt}
	case "fresh": // fresh(p): p was allocated during the call
		v := arg(0)
		if e.old == nil {
			return e.fail("fresh() without entry state")
		}
		pv, ok := v.V.(PtrV)
		if ok && pv.Cell != nil {
			return SV{V: TV{SBool, "true"}}
		}
		return SV{V: TV{SBool, tCmp(">=", e.term(v), e.old.top)}}
	case "min":
		a, b := e.term(arg(0)), e.term(arg(1))
		return SV{V: TV{SInt, tIte(tCmp("<", a, b), a, b)}}
	case "max":
		a, b := e.term(arg(0)), e.term(arg(1))
		return SV{V: TV{SInt, tIte(tCmp("<", a, b), b, a)}}
	case "ite":
		c := e.boolOf(arg(0))
		a, b := arg(1), arg(2)
		return SV{V: TV{e.sortOf(a), tIte(c, e.term(a), e.term(b))}, T: a.T}
	case "memreader", "memwriter":
		// mode predicates: true for in-memory streams, and for symbolic ones that
		// were declared so by the enclosing function's own requires clause
		v := arg(0)
		switch u := v.V.(type) {
		case IfaceV:
			if u.Sym != "" {
				_, ok := e.st.ghost[name+":"+u.Sym]
				if name == "memreader" {
					_, ok = e.st.ghost["rem:"+u.Sym]
				}
				return SV{V: TV{SBool, tBool(ok)}}
			}
			if p, ok := u.Payload.(PtrV); ok && ghostFor(p.Elem) != "" {
				return SV{V: TV{SBool, "true"}}
			}
			return SV{V: TV{SBool, "false"}}
		case PtrV:
			return SV{V: TV{SBool, tBool(ghostFor(u.Elem) != "")}}
		}
		return SV{V: TV{SBool, "false"}}
	}
	if pd, ok := specPreds[name]; ok && pd.Expr != nil {
		if len(n.Args) != len(pd.Params) {
			return e.fail("pred %s expects %d arguments", name, len(pd.Params))
		}
		saved := map[string]SV{}
		had := map[string]bool{}
		if e.binds == nil {
			e.binds = map[string]SV{}
		}
		vals := make([]SV, len(n.Args))
		for i := range n.Args {
			vals[i] = arg(i)
		}
		if pd.Opaque {
			if r, ok := e.opaqueCall(pd, vals); ok {
				return r
			}
		}
		for i, pn := range pd.Params {
			saved[pn], had[pn] = e.binds[pn]
			e.binds[pn] = vals[i]
		}
		savedPkg := e.predPkg
		e.predPkg = pd.Pkg
		r := e.eval(pd.Expr)
		e.predPkg = savedPkg
		for _, pn := range pd.Params {
			if had[pn] {
				e.binds[pn] = saved[pn]
			} else {
				delete(e.binds, pn)
			}
		}
		return r
	}
	if sf, ok := specFuncs[name]; ok {
		var args []SV
		for i := range n.Args {
			args = append(args, arg(i))
		}
		if e.err != nil {
			return SV{V: TV{SBool, "false"}}
		}
		return sf(e, args)
	}
	return e.fail("unknown spec function %q", name)
}

// ghostSeq returns the ghost byte sequence attached to a reader/writer value.
func (x *Exec) ghostSeq(st *State, v Val, kind string) (string, bool) {
	switch u := v.(type) {
	case nil:
		// spec expressions are total: the stream of a nil interface is unspecified
		x.w.Decl("(declare-fun g_nostream () " + SSeqI + ")")
		return "g_nostream", true
	case TV:
		// a buffer held by value (e.g. `type efibytes bytes.Buffer` inside an interface)
		if d := x.w.DTByName(u.S); d != nil && u.S == "T_bytes_Buffer" {
			return d.Get(0, u.E), true
		}
	case IfaceV:
		if u.Sym == "" && u.Payload == nil && u.Dyn == nil {
			x.w.Decl("(declare-fun g_nostream () " + SSeqI + ")")
			return "g_nostream", true
		}
		if u.Sym != "" {
			if g, ok := st.ghost[kind+":"+u.Sym]; ok {
				return g.(TV).E, true
			}
			return "", false
		}
		if u.Payload != nil {
			return x.ghostSeq(st, u.Payload, kind)
		}
	case PtrV:
		if u.Nil && u.Elem != nil && ghostFor(u.Elem) != "" {
			// spec expressions are total: the stream of a nil pointer is unspecified
			u = PtrV{Ref: "0", RootSort: x.w.SortOf(u.Elem), Elem: u.Elem}
		}
		if u.Ref != "" && len(u.Path) == 0 {
			switch ghostFor(u.Elem) {
			case "bytes.Buffer":
				d := x.w.DTByName(u.RootSort)
				return d.Get(0, st.heapSelect(u.RootSort, u.Ref)), true
			case "cryptobyte.Builder": // out(b): what has been added to the builder so far
				d := x.w.DTByName(u.RootSort)
				return d.Get(0, st.heapSelect(u.RootSort, u.Ref)), true
			case "bytes.Reader", "io.SectionReader":
				// content (for a section: the bytes of the section) from the read position on
				d := x.w.DTByName(u.RootSort)
				o := st.heapSelect(u.RootSort, u.Ref)
				s := d.Get(0, o)
				return sSl(SSeqI, s, d.Get(1, o), sLen(SSeqI, s)), true
			}
		}
	}
	return "", false
}

// constant helper for initialisers
func constToTerm(c constant.Value) (string, bool) {
	switch c.Kind() {
	case constant.Int:
		n, ok := new(big.Int).SetString(c.ExactString(), 10)
		if ok {
			return numLit(n), true
		}
	case constant.Bool:
		return tBool(constant.BoolVal(c)), true
	}
	return "", false
}

var _ = strings.TrimSpace

// shiftedIndex: the numeral c of the first index term of the form (S_idx s (+ bv c)) in body.
func shiftedIndex(body, bv string) (string, bool) {
	needle := " (+ " + bv + " "
	i := strings.Index(body, needle)
	for i >= 0 {
		rest := body[i+len(needle):]
		j := strings.IndexByte(rest, ')')
		if j > 0 && isNumLit(rest[:j]) && strings.HasPrefix(rest[j:], "))") {
			// the enclosing term must be an index term: walk back to its head
			depth, k := 0, i
			for k >= 0 {
				if body[k] == ')' {
					depth++
				} else if body[k] == '(' {
					if depth == 0 {
						break
					}
					depth--
				}
				k--
			}
			if k >= 0 {
				head := body[k+1:]
				if sp := strings.IndexByte(head, ' '); sp > 0 && strings.HasSuffix(head[:sp], "_idx") {
					return rest[:j], true
				}
			}
		}
		n := strings.Index(body[i+1:], needle)
		if n < 0 {
			break
		}
		i += 1 + n
	}
	return "", false
}

// idxPatterns: E-matching triggers for a bounded quantifier: the sequence
// index terms whose index is exactly the bound variable.
func idxPatterns(body, bv string) []string {
	var out []string
	seen := map[string]bool{}
	needle := " " + bv + ")"
	for i := 0; i+len(needle) <= len(body); i++ {
		if body[i:i+len(needle)] != needle {
			continue
		}
		// walk back to the matching "("
		depth := 0
		j := i
		for j >= 0 {
			if body[j] == ')' {
				depth++
			} else if body[j] == '(' {
				if depth == 0 {
					break
				}
				depth--
			}
			j--
		}
		if j < 0 {
			continue
		}
		term := body[j : i+len(needle)]
		head := term[1:]
		if sp := strings.IndexByte(head, ' '); sp > 0 {
			head = head[:sp]
		}
		if strings.HasSuffix(head, "_idx") && !strings.Contains(term[:len(term)-len(needle)], bv) && !seen[term] &&
			!strings.Contains(term, "(ite ") && !strings.Contains(term, "(forall ") {
			seen[term] = true
			out = append(out, term)
		}
	}
	if len(out) > 3 {
		out = out[:3]
	}
	return out
}

// opaqueCall applies an opaque predicate through an uninterpreted symbol whose
// defining axiom (triggered on the application) is added to the facts.  It
// declines (ok=false, the caller expands the body in place) when an argument is
// not a plain SMT value or when the body reads the heap, which is not an argument.
func (e *specEnv) opaqueCall(pd *Pred, vals []SV) (SV, bool) {
	var sorts, args, bvs []string
	for _, v := range vals {
		tv, ok := v.V.(TV)
		if !ok {
			return SV{}, false
		}
		sorts = append(sorts, tv.S)
		args = append(args, tv.E)
	}
	fname := "p_" + pd.Name
	for _, s := range sorts {
		fname += "_" + strings.TrimPrefix(strings.TrimPrefix(s, "g_"), "T_")
	}
	key := "opaque:" + fname
	ax, done := e.x.opaqueAx[key]
	if done && ax == "pending" {
		// a recursive use inside the predicate's own definition: the symbol itself
		if e.x.opaqueRec == nil {
			e.x.opaqueRec = map[string]bool{}
		}
		e.x.opaqueRec[key] = true
		return SV{V: TV{SBool, app(fname, args...)}}, true
	}
	if !done {
		if e.x.opaqueAx == nil {
			e.x.opaqueAx = map[string]string{}
		}
		e.x.opaqueAx[key] = "pending"
		e.x.w.Decl(fmt.Sprintf("(declare-fun %s (%s) Bool)", fname, strings.Join(sorts, " ")))
		saved := map[string]SV{}
		had := map[string]bool{}
		if e.binds == nil {
			e.binds = map[string]SV{}
		}
		var binder strings.Builder
		for i, pn := range pd.Params {
			bv := fmt.Sprintf("pv_%s_%s", pd.Name, pn)
			bvs = append(bvs, bv)
			fmt.Fprintf(&binder, "(%s %s)", bv, sorts[i])
			saved[pn], had[pn] = e.binds[pn]
			e.binds[pn] = SV{V: TV{sorts[i], bv}, T: vals[i].T}
		}
		nf := len(e.facts)
		n0 := e.x.freshN
		e.x.freshN = 900000 + 1000*len(e.x.opaqueAx) // bound names independent of the use site
		// the definition is evaluated in a scratch state: constants it introduces for literal
		// package values (OIDs) are local to that state, so they are replaced by their defining terms
		realSt := e.st
		scratch := realSt.fork()
		e.st = scratch
		body := e.boolOf(e.eval(pd.Expr))
		e.st = realSt
		// (the whole chain is searched: a literal that the use site had already named keeps that
		// name in the scratch state, and the name means nothing in another unit's queries)
		for p := scratch.assumes; p != nil; p = p.tail {
			if !strings.Contains(body, "g_lit_") {
				break
			}
			if a, ok := splitCtor(p.head, "="); ok && len(a) == 2 && strings.HasPrefix(a[0], "g_lit_") && !strings.HasPrefix(a[1], "(g_SeqI_len") && !isNumLit(a[1]) {
				body = replaceWord(body, a[0], a[1])
			}
		}
		e.x.freshN = n0
		e.facts = e.facts[:nf]
		for _, pn := range pd.Params {
			if had[pn] {
				e.binds[pn] = saved[pn]
			} else {
				delete(e.binds, pn)
			}
		}
		if e.err != nil || strings.Contains(body, "g_H_") {
			e.x.opaqueAx[key] = ""
			return SV{}, false
		}
		ap := app(fname, bvs...)
		if e.x.opaqueRec[key] {
			// a recursive definition unfolds itself: instances of later generations are postponed
			ax = fmt.Sprintf("(forall (%s) (! (= %s %s) :pattern (%s) :weight 19))", binder.String(), ap, body, ap)
		} else {
			ax = fmt.Sprintf("(forall (%s) (! (= %s %s) :pattern (%s)))", binder.String(), ap, body, ap)
		}
		e.x.opaqueAx[key] = ax
		e.x.w.Decl(fmt.Sprintf("(declare-fun %s (%s) Bool)", fname, strings.Join(sorts, " ")))
	}
	if ax == "" {
		return SV{}, false
	}
	e.axioms = append(e.axioms, ax)
	return SV{V: TV{SBool, app(fname, args...)}}, true
}

func isNumLit(t string) bool { _, ok := isNum(t); return ok }

// replaceWord replaces whole-symbol occurrences of name in an SMT term.
func replaceWord(term, name, by string) string {
	var b strings.Builder
	for i := 0; i < len(term); {
		j := strings.Index(term[i:], name)
		if j < 0 {
			b.WriteString(term[i:])
			break
		}
		j += i
		end := j + len(name)
		okL := j == 0 || strings.ContainsRune(" ()", rune(term[j-1]))
		okR := end == len(term) || strings.ContainsRune(" ()", rune(term[end]))
		b.WriteString(term[i:j])
		if okL && okR {
			b.WriteString(by)
		} else {
			b.WriteString(name)
		}
		i = end
	}
	return b.String()
}
