package main

import (
	"go/token"
	"fmt"
	"go/types"
	"math/big"
	"strings"

	"golang.org/x/tools/go/ssa"
)

type bigInt = big.Int

var bigOne = big.NewInt(1)
var big2 = big.NewInt(2)

type cont func(st *State, fr *Frame, v Val)

// Outcome of an external handler.
type Outcome struct {
	St  *State
	Val Val
}

func (x *Exec) doCall(st *State, fr *Frame, cc *ssa.CallCommon, instr ssa.Instruction, k cont) {
	var fnv Val
	if !cc.IsInvoke() {
		if _, isB := cc.Value.(*ssa.Builtin); !isB {
			fnv = x.get(st, fr, cc.Value)
		}
	} else {
		fnv = x.get(st, fr, cc.Value)
	}
	var args []Val
	for _, a := range cc.Args {
		args = append(args, x.get(st, fr, a))
	}
	x.doCallVals(st, fr, cc, fnv, args, instr, k)
}

func repoFunc(fn *ssa.Function) bool {
	if fn == nil {
		return false
	}
	p := fn.Pkg
	if p == nil && fn.Parent() != nil {
		p = fn.Parent().Pkg
	}
	if p == nil {
		// instantiated generics / synthetic wrappers
		if fn.Origin() != nil && fn.Origin().Pkg != nil {
			p = fn.Origin().Pkg
		} else {
			return false
		}
	}
	return strings.HasPrefix(p.Pkg.Path(), "github.com/foxboron/go-uefi")
}

func (x *Exec) doCallVals(st *State, fr *Frame, cc *ssa.CallCommon, fnv Val, args []Val, instr ssa.Instruction, k cont) {
	// builtins
	if b, ok := cc.Value.(*ssa.Builtin); ok && !cc.IsInvoke() {
		k(st, fr, x.builtin(st, fr, b, cc, args, instr))
		return
	}
	var callee *ssa.Function
	var bind []Val
	if cc.IsInvoke() {
		iv, _ := fnv.(IfaceV)
		if iv.Sym == "" && iv.Dyn != nil {
			ms := x.prog.MethodSets.MethodSet(iv.Dyn)
			sel := ms.Lookup(cc.Method.Pkg(), cc.Method.Name())
			if sel != nil {
				callee = x.prog.MethodValue(sel)
			}
			if callee != nil {
				args = append([]Val{iv.Payload}, args...)
			}
		}
		if callee == nil {
			if iv.Sym == "" && iv.Dyn == nil {
				x.safe(st, fr, "nil", "false", instr)
				st.kill("nil dereference")
				x.pathEnd(st, fr)
				return
			}
			// symbolic interface: contract of the interface method
			x.invokeSymbolic(st, fr, cc, iv, args, instr, k)
			return
		}
	} else {
		switch f := fnv.(type) {
		case ClosureV:
			callee = f.Fn
			bind = f.Bind
		}
		if callee == nil {
			x.note("call of unknown function value in " + fr.fn.Name())
			x.havocForUnknown(st, args)
			k(st, fr, x.symResult(st, cc))
			return
		}
	}
	name := callee.String()
	if callee.Origin() != nil {
		name = callee.Origin().String()
	}
	if h, ok := cpsExterns[name]; ok {
		h(x, st, fr, cc, args, instr, k)
		return
	}
	if h, ok := externs[name]; ok {
		x.extUsed[name] = true
		// a library function that is handed a *bytes.Buffer, *bytes.Reader or *io.SectionReader
		// inside an interface calls its methods: a nil pointer in there is a nil dereference
		for _, a := range args {
			if iv, isI := a.(IfaceV); isI && iv.Sym == "" && iv.Dyn != nil {
				if pv, isP := iv.Payload.(PtrV); isP && pv.RootSort != "" {
					for _, ss := range streamSorts {
						if pv.RootSort == ss {
							x.nilCheck(st, fr, pv, instr)
						}
					}
				}
			}
		}
		outs := h(x, st, fr, cc, args, instr)
		x.continueOutcomes(fr, outs, k)
		return
	}
	if !repoFunc(callee) {
		x.note("extunknown: " + name)
		x.extUsed["UNKNOWN "+name] = true
		x.havocForUnknown(st, args)
		k(st, fr, x.symResult(st, cc))
		return
	}
	// repository function
	c := x.contracts[fnName(callee)]
	// (a recursive call of a lemma function goes through its own contract: partial correctness;
	// this is what makes an inductive lemma function possible. Library functions do not recurse.)
	if c != nil && !c.Inline && (callee != x.unit || isLemmaUnit(fnName(callee))) || c != nil && c.Trusted {
		x.callByContract(st, fr, callee, c, bind, args, instr, k)
		return
	}
	if callee.Blocks == nil {
		x.note("no body for " + name)
		k(st, fr, x.symResult(st, cc))
		return
	}
	li := x.loopInfo(callee)
	needsCut := false
	for _, lp := range li.list {
		if !lp.unroll {
			needsCut = true
		}
	}
	if needsCut && c == nil || fr.depth > 8 || callee == fr.fn {
		// a helper with a loop and no contract: treat as havoc (sound, weak)
		x.note("callee without contract not inlinable: " + fnName(callee))
		x.havocForUnknown(st, args)
		st.advanceTop()
		for h := range st.heaps {
			st.havocHeap(strings.TrimPrefix(h, "H_"))
		}
		k(st, fr, x.symResult(st, cc))
		return
	}
	x.inline(st, fr, callee, c, bind, args, k)
}

func (x *Exec) continueOutcomes(fr *Frame, outs []Outcome, k cont) {
	for i, o := range outs {
		f := fr
		if i < len(outs)-1 {
			f = fr.copy()
		}
		if o.St.dead != "" {
			x.pathEnd(o.St, f)
			continue
		}
		k(o.St, f, o.Val)
	}
}

func (x *Exec) symResult(st *State, cc *ssa.CallCommon) Val {
	sig := cc.Signature()
	res := sig.Results()
	switch res.Len() {
	case 0:
		return nil
	case 1:
		return x.symVal(st, "res", res.At(0).Type())
	}
	var t TupleV
	for i := 0; i < res.Len(); i++ {
		t = append(t, x.symVal(st, fmt.Sprintf("res%d", i), res.At(i).Type()))
	}
	return t
}

// havocForUnknown: an unknown callee may write everything reachable from its
// pointer arguments.
func (x *Exec) havocForUnknown(st *State, args []Val) {
	for _, a := range args {
		x.havocReachable(st, a)
	}
}

func (x *Exec) havocReachable(st *State, a Val) {
	switch p := a.(type) {
	case PtrV:
		if p.Cell != nil && !st.frozen[p.Cell] {
			_, x.keepLen = st.ghost[fmt.Sprintf("len:%d", p.Cell.id)]
			st.cells[p.Cell] = x.havocLike(st, p.Cell.name, p.Cell.typ, st.cells[p.Cell])
			x.keepLen = false
		} else if p.Ref != "" {
			st.havocHeap(p.RootSort)
		}
	case SliceV:
		if !st.frozen[p.Cell] {
			_, x.keepLen = st.ghost[fmt.Sprintf("len:%d", p.Cell.id)]
			st.cells[p.Cell] = x.havocLike(st, p.Cell.name, p.Cell.typ, st.cells[p.Cell])
			x.keepLen = false
		}
	case IfaceV:
		if p.Payload != nil {
			x.havocReachable(st, p.Payload)
		}
		if p.Sym != "" {
			for _, pre := range []string{"rem:", "out:"} {
				if v, ok := st.ghost[pre+p.Sym]; ok {
					tv := v.(TV)
					n := st.fresh("hv", tv.S)
					st.assume(app("g_isbytes", n))
					st.ghost[pre+p.Sym] = TV{tv.S, n}
				}
			}
		}
	case ClosureV:
		for _, b := range p.Bind {
			x.havocReachable(st, b)
		}
	}
}

type effects struct {
	allHeaps bool
	allCells bool
	heaps    map[string]bool
	ptrArgs  []ssa.Value
}

// callEffects: static over-approximation of what a call writes (for loop havoc).
func (x *Exec) callEffects(fr *Frame, cc *ssa.CallCommon) effects {
	e := effects{heaps: map[string]bool{}}
	if _, ok := cc.Value.(*ssa.Builtin); ok {
		return e
	}
	for _, a := range cc.Args {
		switch a.Type().Underlying().(type) {
		case *types.Pointer, *types.Slice, *types.Interface:
			e.ptrArgs = append(e.ptrArgs, a)
		}
	}
	if cc.IsInvoke() {
		e.ptrArgs = append(e.ptrArgs, cc.Value)
		e.allHeaps = true
		return e
	}
	callee := cc.StaticCallee()
	if callee == nil {
		// closure call: captured cells may change
		if mc, ok := cc.Value.(*ssa.MakeClosure); ok {
			e.ptrArgs = append(e.ptrArgs, mc.Bindings...)
		} else {
			e.allCells = true
		}
		e.allHeaps = true
		return e
	}
	if _, ok := externs[callee.String()]; ok {
		// externals write only through their pointer arguments / ghost state
		for _, a := range cc.Args {
			if mi, ok := a.(*ssa.MakeInterface); ok {
				e.ptrArgs = append(e.ptrArgs, mi.X)
			}
		}
		return e
	}
	e.allHeaps = true
	for _, a := range cc.Args {
		if mi, ok := a.(*ssa.MakeInterface); ok {
			e.ptrArgs = append(e.ptrArgs, mi.X)
		}
	}
	return e
}

// ---------------------------------------------------------------------------
// inlining

func (x *Exec) inline(st *State, fr *Frame, callee *ssa.Function, c *Contract, bind, args []Val, k cont) {
	nf := &Frame{fn: callee, vals: map[ssa.Value]Val{}, parent: fr, depth: fr.depth + 1, params: map[string]Val{},
		cutLoops: map[int]*loopCut{}, contract: c, prefix: fr.prefix + "inl:" + callee.Name() + ":"}
	for i, p := range callee.Params {
		if i < len(args) {
			nf.vals[p] = args[i]
			nf.params[p.Name()] = args[i]
		}
	}
	for i, fv := range callee.FreeVars {
		if i < len(bind) {
			nf.vals[fv] = bind[i]
			nf.params[fv.Name()] = bind[i]
		}
	}
	nf.entry = st.fork()
	nres := callee.Signature.Results().Len()
	nf.onRet = func(st *State, parent *Frame, res []Val) {
		var v Val
		switch nres {
		case 0:
		case 1:
			v = res[0]
		default:
			v = TupleV(res)
		}
		k(st, parent, v)
	}
	if len(callee.Blocks) == 0 {
		st.kill("inline of function without body")
		x.pathEnd(st, fr)
		return
	}
	x.runBlock(st, nf, callee.Blocks[0], 0)
}

// ---------------------------------------------------------------------------
// builtins

func (x *Exec) builtin(st *State, fr *Frame, b *ssa.Builtin, cc *ssa.CallCommon, args []Val, instr ssa.Instruction) Val {
	switch b.Name() {
	case "len":
		return TV{SInt, x.lenOf(st, args[0], cc.Args[0].Type())}
	case "cap":
		switch a := args[0].(type) {
		case SliceV:
			return TV{SInt, tSub(x.cellLen(st, a.Cell), a.Lo)}
		}
		ln := x.lenOf(st, args[0], cc.Args[0].Type())
		c := st.fresh("cap", SInt)
		st.assume(tCmp("<=", ln, c))
		return TV{SInt, c}
	case "append":
		t := cc.Args[0].Type()
		sort := x.w.SortOf(t)
		// append onto a re-slice s[:k] of a slice the function reads from memory it did not allocate:
		// the elements land in the spare capacity of that backing array, i.e. this is a write to the
		// object holding s even though its slice header stays the same (invisible to the value view
		// of slices; recorded here and charged to the frame at the return)
		if args[1] != nil {
			if ref, rs, ok := x.sharedAppendBase(st, fr, cc.Args[0], map[ssa.Value]bool{}); ok {
				st.ghost["aliaswrite:"+rs+":"+ref] = TV{SBool, "true"}
			}
		}
		if args[1] == nil {
			_, e := x.seqOf(st, args[0], t)
			return TV{sort, e}
		}
		_, a := x.seqOf(st, args[0], t)
		_, bb := x.seqOf(st, args[1], cc.Args[1].Type())
		if a == sEmpty(sort) {
			return TV{sort, bb}
		}
		return TV{sort, sApp(sort, a, bb)}
	case "copy":
		dst, ok := args[0].(SliceV)
		t := cc.Args[0].Type()
		sort := x.w.SortOf(t)
		_, src := x.seqOf(st, args[1], cc.Args[1].Type())
		if !ok {
			if x.lenOf(st, args[0], t) == "0" {
				return TV{SInt, "0"}
			}
			// copy(obj.arr[lo:hi], src): the destination is an array inside a heap object
			if sl, isSl := cc.Args[0].(*ssa.Slice); isSl {
				if ap, isPtr := fr.vals[sl.X].(PtrV); isPtr && !ap.Nil {
					if at, isArr := sl.X.Type().Underlying().(*types.Pointer).Elem().Underlying().(*types.Array); isArr {
						lo := "0"
						if sl.Low != nil {
							lo = x.tv(st, fr, sl.Low).E
						}
						hi := num(at.Len())
						if sl.High != nil {
							hi = x.tv(st, fr, sl.High).E
						}
						cur := x.toTV(st, x.load(st, ap), at)
						dl := tSub(hi, lo)
						slen := sLen(sort, src)
						n := tIte(tCmp("<", dl, slen), dl, slen)
						nv := sApp(sort, sApp(sort, sSl(sort, cur.E, "0", lo), sSl(sort, src, "0", n)), sSl(sort, cur.E, tAdd(lo, n), num(at.Len())))
						x.store(st, ap, TV{sort, nv})
						return TV{SInt, n}
					}
				}
			}
			st.kill("copy into a slice without local owner")
			return TV{SInt, "0"}
		}
		dl := tSub(dst.Hi, dst.Lo)
		slen := sLen(sort, src)
		n := tIte(tCmp("<", dl, slen), dl, slen)
		cur, _ := st.cells[dst.Cell].(TV)
		if st.frozen[dst.Cell] {
			st.kill("copy into shared backing array")
			return TV{SInt, n}
		}
		total := x.cellLen(st, dst.Cell)
		nv := sApp(sort, sApp(sort, sSl(sort, cur.E, "0", dst.Lo), sSl(sort, src, "0", n)), sSl(sort, cur.E, tAdd(dst.Lo, n), total))
		st.cells[dst.Cell] = TV{sort, nv}
		return TV{SInt, n}
	case "print", "println":
		return nil
	case "min", "max":
		a := x.toTV(st, args[0], cc.Args[0].Type()).E
		bb := x.toTV(st, args[1], cc.Args[1].Type()).E
		if b.Name() == "min" {
			return TV{SInt, tIte(tCmp("<", a, bb), a, bb)}
		}
		return TV{SInt, tIte(tCmp("<", a, bb), bb, a)}
	case "ssa:wrapnilchk":
		return args[0]
	}
	st.kill("unsupported builtin " + b.Name())
	return x.symResult(st, cc)
}

// ---------------------------------------------------------------------------
// globals

func (x *Exec) globalPtr(st *State, g *ssa.Global) Val {
	t := g.Type().Underlying().(*types.Pointer).Elem()
	return PtrV{Cell: x.globalCell(st, g), Elem: t}
}

var globalCells = map[*ssa.Global]*Cell{}

func (x *Exec) globalCell(st *State, g *ssa.Global) *Cell {
	c, ok := globalCells[g]
	if !ok {
		x.cellN++
		t := g.Type().Underlying().(*types.Pointer).Elem()
		c = &Cell{id: x.cellN, name: "global:" + g.Name(), typ: t}
		globalCells[g] = c
	}
	if _, ok := st.cells[c]; !ok {
		st.cells[c] = x.globalInitVal(st, g)
		// remembered for the frame check: a package-level variable is part of what a read-only
		// operation must leave as it was
		if tv, isTV := st.cells[c].(TV); isTV {
			st.ghost[fmt.Sprintf("ginit:%d", c.id)] = tv
		}
	}
	return c
}

func (x *Exec) globalLoad(st *State, g *ssa.Global) Val {
	c := x.globalCell(st, g)
	return st.cells[c]
}

func (x *Exec) errClassOf(key string) int64 {
	if v, ok := x.errClass[key]; ok {
		return v
	}
	v := int64(100 + len(x.errClass))
	x.errClass[key] = v
	return v
}

var wellKnownErr = map[string]int64{
	"io.EOF":              1,
	"io.ErrUnexpectedEOF": 2,
	"io/fs.ErrNotExist":   3,
	"os.ErrNotExist":      3,
	"io.ErrShortWrite":    4,
}

func globalKey(g *ssa.Global) string {
	if g.Pkg != nil {
		return g.Pkg.Pkg.Path() + "." + g.Name()
	}
	return g.Name()
}

func (x *Exec) globalInitVal(st *State, g *ssa.Global) Val {
	t := g.Type().Underlying().(*types.Pointer).Elem()
	key := globalKey(g)
	if isErrorType(t) {
		if c, ok := wellKnownErr[key]; ok {
			return ErrV{Class: num(c), Wrapped: "false"}
		}
		return ErrV{Class: num(x.errClassOf("global:" + key)), Wrapped: "false"}
	}
	if _, ok := t.Underlying().(*types.Map); ok {
		return MapV{Global: g}
	}
	if key == "io.Discard" {
		id := st.fresh("discard", SInt)
		st.assume(tCmp("<", "0", id))
		st.ghost["out:"+id] = TV{SSeqI, sEmpty(SSeqI)}
		st.ghost["memwriter:"+id] = TV{SBool, "true"}
		return IfaceV{Sym: id, Static: t}
	}
	if key == "encoding/binary.LittleEndian" {
		return TV{x.w.SortOf(t), x.zeroTerm(t)}
	}
	if key == "encoding/binary.BigEndian" {
		return TV{x.w.SortOf(t), x.zeroTerm(t)}
	}
	if f, ok := x.globalInit[g]; ok && x.globalsRO[g] {
		if v := f(st); v != nil {
			return v
		}
	}
	x.note("global read as unconstrained: " + key)
	return x.symVal(st, "glob_"+g.Name(), t)
}

type mapEntry struct{ key, val string }

func (x *Exec) mapEntries(st *State, g *ssa.Global) []mapEntry {
	if !x.globalsRO[g] {
		return nil
	}
	return x.mapInit(st, g)
}

// ---------------------------------------------------------------------------
// interface ghosts

// initIfaceGhost sets up ghost state for symbolic interface values by static type.
func (x *Exec) initIfaceGhost(st *State, iv IfaceV) {
	if iv.Static == nil {
		return
	}
	it, ok := iv.Static.Underlying().(*types.Interface)
	if !ok {
		return
	}
	has := func(name string) bool {
		for i := 0; i < it.NumMethods(); i++ {
			if it.Method(i).Name() == name {
				return true
			}
		}
		return false
	}
	if has("Read") && !has("ReadAt") {
		r := x.freshBytes(st, "rem")
		st.ghost["rem:"+iv.Sym] = TV{SSeqI, r}
	}
	if has("Write") {
		st.ghost["out:"+iv.Sym] = TV{SSeqI, sEmpty(SSeqI)}
	}
}

// ifaceStored: when an object of a repository type becomes an interface value
// its abstract size is the value its Size method returns (the `size` field of
// readerAtSize and multi).
func (x *Exec) ifaceStored(st *State, iv IfaceV, p PtrV) {
	d := x.w.DTByName(p.RootSort)
	if d == nil {
		return
	}
	if i := d.FieldIndex("size"); i >= 0 && d.Fields[i].Sort == SInt {
		viewDecl(x)
		st.assume(tEq(app("g_size", p.Ref), d.Get(i, st.heapSelect(p.RootSort, p.Ref))))
	}
	// ReadAt promoted from an embedded io.ReaderAt: the object serves the embedded reader's bytes
	if i := d.FieldIndex("ReaderAt"); i >= 0 && d.Fields[i].Sort == SInt && strings.HasPrefix(d.Name, "T_authenticode_") {
		viewDecl(x)
		st.assume(tEq(app("g_view", p.Ref), app("g_view", d.Get(i, st.heapSelect(p.RootSort, p.Ref)))))
	}
	// abstraction function of the positional concatenation: the view of a *multi is the
	// concatenation of its parts' views (that (*multi).ReadAt serves exactly this is its contract)
	if i := d.FieldIndex("parts"); i >= 0 && d.Name == "T_authenticode_multi" && x.w.DTByName(offSrcSort) != nil {
		viewDecl(x)
		st.assume(tEq(app("g_view", p.Ref), app("g_partviews", d.Get(i, st.heapSelect(p.RootSort, p.Ref)))))
	}
}

// sharedAppendBase: does v (the first argument of an append) derive from a re-slice s[:k] of a slice
// that was loaded through a pointer to an object allocated before this call? Returns that object.
func (x *Exec) sharedAppendBase(st *State, fr *Frame, v ssa.Value, seen map[ssa.Value]bool) (ref, sort string, ok bool) {
	if seen[v] {
		return "", "", false
	}
	seen[v] = true
	switch u := v.(type) {
	case *ssa.Phi:
		for _, e := range u.Edges {
			if r, s, ok := x.sharedAppendBase(st, fr, e, seen); ok {
				return r, s, true
			}
		}
	case *ssa.Slice:
		if u.High == nil {
			return "", "", false // s[k:] keeps the end of the slice: appending reallocates or extends past its own end
		}
		ld, isLoad := u.X.(*ssa.UnOp)
		if !isLoad || ld.Op != token.MUL {
			return x.sharedAppendBase(st, fr, u.X, seen)
		}
		pv, isPtr := fr.vals[ld.X].(PtrV)
		if !isPtr || pv.Nil {
			return "", "", false
		}
		if pv.Cell != nil {
			// a pointer to a slice variable (e.g. a *SignatureDatabase receiver)
			if _, atEntry := fr.entry.cells[pv.Cell]; !atEntry {
				return "", "", false
			}
			if x.aliasCells == nil {
				x.aliasCells = map[string]*Cell{}
			}
			key := fmt.Sprintf("%p", pv.Cell)
			x.aliasCells[key] = pv.Cell
			return key, "cell", true
		}
		if pv.Ref == "" {
			return "", "", false
		}
		return pv.Ref, pv.RootSort, true
	case *ssa.Call:
		// append(append(s[:k], ...), ...)
		if b, isB := u.Call.Value.(*ssa.Builtin); isB && b.Name() == "append" && len(u.Call.Args) > 0 {
			return x.sharedAppendBase(st, fr, u.Call.Args[0], seen)
		}
	}
	return "", "", false
}
