package main

import (
	"fmt"
	"go/types"
	"strings"

	"golang.org/x/tools/go/ssa"
)

// ---------------------------------------------------------------------------
// values

type Val interface{}

// TV is an SMT-level value.
type TV struct{ S, E string }

// PtrV is a Go-side pointer: a root (cell, heap ref, or immutable value) and a
// path of field/index selections.
type PtrV struct {
	Nil      bool
	Cell     *Cell  // root kind 1: Go-side cell
	Ref      string // root kind 2: heap reference (Int term); may be 0 (nil)
	RootSort string // sort of the heap cell for Ref roots
	Imm      *TV    // root kind 3: immutable SMT value (element of a value sequence)
	Path     []PathEl
	Elem     types.Type // static pointee type (after path)
}

type PathEl struct {
	IsIdx bool
	Field int
	Idx   string
}

type IfaceV struct {
	Dyn     types.Type // nil => nil interface (when Sym == "")
	Payload Val
	Sym     string     // symbolic interface identity (Int term) when dynamic type unknown
	Static  types.Type // static interface type for symbolic values
}

type ErrV struct{ Class, Wrapped string } // Class: Int term, 0 = nil

type TupleV []Val

type ClosureV struct {
	Fn   *ssa.Function
	Bind []Val
}

// SliceV is a window [Lo,Hi) onto a Go-side array cell.
type SliceV struct {
	Cell   *Cell
	Lo, Hi string
}

// ArrV is a Go-side array of arbitrary values (e.g. [4]interface{}).
type ArrV struct{ Elems []Val }

type MapV struct{ Global *ssa.Global }

type OpaqueV struct{ Note string }

type Cell struct {
	id     int
	name   string
	typ    types.Type
}

func (c *Cell) String() string { return fmt.Sprintf("cell%d(%s)", c.id, c.name) }

// ---------------------------------------------------------------------------
// persistent list

type plist struct {
	head string
	tail *plist
	n    int
}

func (p *plist) push(s string) *plist {
	n := 1
	if p != nil {
		n = p.n + 1
	}
	return &plist{head: s, tail: p, n: n}
}

func (p *plist) slice() []string {
	if p == nil {
		return nil
	}
	out := make([]string, p.n)
	i := p.n - 1
	for q := p; q != nil; q = q.tail {
		out[i] = q.head
		i--
	}
	return out
}

// ---------------------------------------------------------------------------
// state

type State struct {
	x       *Exec
	cells   map[*Cell]Val
	frozen  map[*Cell]bool
	heaps   map[string]string // heap name -> current array term
	top     string            // allocation frontier (Int term)
	assumes *plist
	decls   *plist
	ghost   map[string]Val
	visits  map[*ssa.BasicBlock]int
	steps   int
	known   map[string]bool
	dead    string // reason this path was abandoned (out of subset)
	trail   []string
}

func (st *State) fork() *State {
	n := *st
	n.cells = make(map[*Cell]Val, len(st.cells))
	for k, v := range st.cells {
		n.cells[k] = v
	}
	n.frozen = make(map[*Cell]bool, len(st.frozen))
	for k, v := range st.frozen {
		n.frozen[k] = v
	}
	n.heaps = make(map[string]string, len(st.heaps))
	for k, v := range st.heaps {
		n.heaps[k] = v
	}
	n.ghost = make(map[string]Val, len(st.ghost))
	for k, v := range st.ghost {
		n.ghost[k] = v
	}
	n.visits = make(map[*ssa.BasicBlock]int, len(st.visits))
	for k, v := range st.visits {
		n.visits[k] = v
	}
	n.trail = append([]string(nil), st.trail...)
	n.known = make(map[string]bool, len(st.known))
	for k, v := range st.known {
		n.known[k] = v
	}
	return &n
}

func (st *State) assume(t string) {
	if t == "true" || t == "" {
		return
	}
	if st.known == nil {
		st.known = map[string]bool{}
	}
	if v, ok := st.known[t]; ok && v {
		return
	}
	st.assumes = st.assumes.push(t)
	if strings.HasPrefix(t, "(not ") {
		st.known[t[5:len(t)-1]] = false
	} else {
		st.known[t] = true
	}
	if strings.HasPrefix(t, "(and ") {
		if args, ok := splitCtor(t, "and"); ok {
			for _, a := range args {
				if strings.HasPrefix(a, "(not ") {
					st.known[a[5:len(a)-1]] = false
				} else {
					st.known[a] = true
				}
			}
		}
	}
}

// knownTruth: syntactic lookup of an atom among the path's assumptions.
func (st *State) knownTruth(c string) (bool, bool) {
	if v, ok := st.known[c]; ok {
		return v, true
	}
	if strings.HasPrefix(c, "(not ") {
		if v, ok := st.known[c[5:len(c)-1]]; ok {
			return !v, true
		}
	}
	return false, false
}

func (st *State) fresh(hint, sort string) string {
	st.x.freshN++
	name := fmt.Sprintf("g_%s_%d", sanitizeIdent(hint), st.x.freshN)
	st.decls = st.decls.push(fmt.Sprintf("(declare-fun %s () %s)", name, sort))
	return name
}

func sanitizeIdent(s string) string {
	var b strings.Builder
	for _, c := range s {
		if c >= 'a' && c <= 'z' || c >= 'A' && c <= 'Z' || c >= '0' && c <= '9' || c == '_' {
			b.WriteRune(c)
		}
	}
	if b.Len() == 0 {
		return "v"
	}
	return b.String()
}

func (st *State) heap(sortName string) string {
	h := st.x.w.Heap(sortName)
	if t, ok := st.heaps[h]; ok {
		return t
	}
	// never touched on this path: the heap still has its value at unit entry,
	// which is one shared constant per unit and sort
	name, ok := st.x.initialHeaps[h]
	if !ok {
		st.x.freshN++
		name = fmt.Sprintf("g_%s_init_%d", h, st.x.freshN)
		st.x.initialHeaps[h] = name
		st.x.w.Decl(fmt.Sprintf("(declare-fun %s () (Array Int %s))", name, sortName))
	}
	st.heaps[h] = name
	return name
}

// havocHeap replaces the heap of a sort by an unconstrained one.
func (st *State) havocHeap(sortName string) string {
	h := st.x.w.Heap(sortName)
	name := st.fresh(h, "(Array Int "+sortName+")")
	st.heaps[h] = name
	return name
}

func (st *State) setHeap(sortName, term string) {
	h := st.x.w.Heap(sortName)
	st.heaps[h] = term
}

type heapDef struct {
	prev, ref, val string
}

func (st *State) heapSelect(sortName, ref string) string {
	h := st.heap(sortName)
	// fold select over the chain of named stores when refs are syntactically equal/distinct
	for {
		d, ok := st.x.heapDefs[h]
		if !ok {
			break
		}
		if d.ref == ref {
			return d.val
		}
		if distinctRefs(d.ref, ref) {
			h = d.prev
			continue
		}
		break
	}
	return app("select", h, ref)
}

// distinctRefs: syntactic check that two allocation terms differ:
// (+ base k1) vs (+ base k2) or base vs (+ base k).
func distinctRefs(a, b string) bool {
	ba, ka := splitOffset(a)
	bb, kb := splitOffset(b)
	return ba == bb && ka != kb
}

func splitOffset(t string) (string, string) {
	if strings.HasPrefix(t, "(+ ") {
		args, ok := splitCtor(t, "+")
		if ok && len(args) == 2 {
			if _, isn := isNum(args[1]); isn {
				return args[0], args[1]
			}
		}
	}
	return t, "0"
}

func (st *State) heapStore(sortName, ref, val string) {
	h := st.heap(sortName)
	val = st.compact(sortName, val)
	nm := st.fresh(st.x.w.Heap(sortName), "(Array Int "+sortName+")")
	st.assume(tEq(nm, app("store", h, ref, val)))
	st.x.heapDefs[nm] = heapDef{prev: h, ref: ref, val: val}
	st.setHeap(sortName, nm)
}

// compact names the large components of a constructor term so that terms stay
// small (every later mention uses the name).
func (st *State) compact(sortName, val string) string {
	if len(val) < 400 {
		return val
	}
	d := st.x.w.DTByName(sortName)
	if d == nil {
		return st.nameTerm(sortName, val)
	}
	args, ok := splitCtor(val, d.Ctor())
	if !ok || len(args) != len(d.Fields) {
		return st.nameTerm(sortName, val)
	}
	for i, a := range args {
		if len(a) > 200 {
			args[i] = st.compact(d.Fields[i].Sort, a)
		}
	}
	return d.Make(args)
}

func (st *State) nameTerm(sortName, term string) string {
	if len(term) < 200 {
		return term
	}
	c := st.fresh("t", sortName)
	st.assume(tEq(c, term))
	termDefs[c] = term
	return c
}

// allocRef returns a fresh, non-nil reference distinct from every existing one.
func (st *State) allocRef() string {
	r := st.top
	st.top = tAdd(st.top, "1")
	return r
}

// advanceTop models allocation by a callee: the frontier moves to an unknown
// later point; returns the old frontier.
func (st *State) advanceTop() string {
	old := st.top
	nt := st.fresh("top", SInt)
	st.assume(tCmp("<=", old, nt))
	st.top = nt
	return old
}

func (st *State) newCell(name string, typ types.Type, v Val) *Cell {
	st.x.cellN++
	c := &Cell{id: st.x.cellN, name: name, typ: typ}
	st.cells[c] = v
	return c
}

func (st *State) kill(reason string) {
	if st.dead == "" {
		st.dead = reason
	}
}
