package main

import (
	"fmt"
	"go/ast"
	"go/constant"
	"go/token"
	"go/types"
	"os"
	"os/exec"
	"path/filepath"
	"strings"

	"golang.org/x/tools/go/packages"
	"golang.org/x/tools/go/ssa"
	"golang.org/x/tools/go/ssa/ssautil"
)

type Loaded struct {
	fset  *token.FileSet
	pkgs  []*packages.Package
	prog  *ssa.Program
	spkgs []*ssa.Package
	funcs map[string]*ssa.Function // by fnName
	root  string
}

const modPath = "github.com/foxboron/go-uefi"

func goEnv() []string {
	env := os.Environ()
	env = append(env, "GOFLAGS=-mod=mod", "GOPROXY=off", "GOSUMDB=off", "GOTOOLCHAIN=local", "CGO_ENABLED=0")
	return env
}

func libraryPackages(root string) ([]string, error) {
	cmd := exec.Command("go", "list", "./...")
	cmd.Dir = root
	cmd.Env = goEnv()
	out, err := cmd.Output()
	if err != nil {
		return nil, fmt.Errorf("go list: %v", err)
	}
	var res []string
	for _, l := range strings.Fields(string(out)) {
		rel := strings.TrimPrefix(l, modPath)
		if strings.HasPrefix(rel, "/cmd") || strings.HasPrefix(rel, "/tests") {
			continue
		}
		res = append(res, l)
	}
	return res, nil
}

func loadRepo(root string) (*Loaded, error) {
	pats, err := libraryPackages(root)
	if err != nil {
		return nil, err
	}
	fset := token.NewFileSet()
	cfg := &packages.Config{
		Mode:       packages.LoadSyntax | packages.NeedModule,
		Dir:        root,
		Fset:       fset,
		Env:        goEnv(),
		BuildFlags: []string{"-tags=verif"},
		Tests:      false,
	}
	pkgs, err := packages.Load(cfg, pats...)
	if err != nil {
		return nil, err
	}
	for _, p := range pkgs {
		for _, e := range p.Errors {
			return nil, fmt.Errorf("package %s: %v", p.PkgPath, e)
		}
	}
	prog, spkgs := ssautil.Packages(pkgs, ssa.GlobalDebug)
	prog.Build()
	l := &Loaded{fset: fset, pkgs: pkgs, prog: prog, spkgs: spkgs, funcs: map[string]*ssa.Function{}, root: root}
	for _, sp := range spkgs {
		if sp == nil {
			continue
		}
		for _, m := range sp.Members {
			switch v := m.(type) {
			case *ssa.Function:
				l.addFunc(v)
			case *ssa.Type:
				for _, t := range []types.Type{v.Type(), types.NewPointer(v.Type())} {
					ms := prog.MethodSets.MethodSet(t)
					for i := 0; i < ms.Len(); i++ {
						if f := prog.MethodValue(ms.At(i)); f != nil && f.Pkg == sp && f.Synthetic == "" {
							l.addFunc(f)
						}
					}
				}
			}
		}
	}
	// enforce: verif-tagged files contain no declarations
	for _, p := range pkgs {
		for i, f := range p.Syntax {
			name := filepath.Base(p.CompiledGoFiles[i])
			if name == "zz_verif_contracts.go" && len(f.Decls) > 0 {
				return nil, fmt.Errorf("%s: contract file contains declarations", p.CompiledGoFiles[i])
			}
		}
	}
	return l, nil
}

func (l *Loaded) addFunc(f *ssa.Function) {
	if f.Blocks == nil {
		return
	}
	if _, ok := l.funcs[fnName(f)]; ok {
		return
	}
	l.funcs[fnName(f)] = f
	for _, a := range f.AnonFuncs {
		l.addFunc(a)
	}
}

func (l *Loaded) pkgPathOfDir(dir string) string {
	rel, err := filepath.Rel(l.root, dir)
	if err != nil || rel == "." {
		return modPath
	}
	return modPath + "/" + filepath.ToSlash(rel)
}

// ---------------------------------------------------------------------------
// package-level variables: read-only detection and initialisers

func (x *Exec) scanGlobals(l *Loaded) {
	x.globalsRO = map[*ssa.Global]bool{}
	x.globalInit = map[*ssa.Global]func(st *State) Val{}
	written := map[*ssa.Global]bool{}
	var rootGlobal func(v ssa.Value) *ssa.Global
	rootGlobal = func(v ssa.Value) *ssa.Global {
		switch a := v.(type) {
		case *ssa.Global:
			return a
		case *ssa.FieldAddr:
			return rootGlobal(a.X)
		case *ssa.IndexAddr:
			return rootGlobal(a.X)
		case *ssa.UnOp:
			return rootGlobal(a.X)
		}
		return nil
	}
	for _, f := range l.funcs {
		if f.Name() == "init" && f.Synthetic != "" {
			continue
		}
		for _, b := range f.Blocks {
			for _, in := range b.Instrs {
				// the address of a package-level variable that goes anywhere but into a load, a store
				// or a field/element address may be written through later: not a constant then
				for _, op := range in.Operands(nil) {
					g, isG := (*op).(*ssa.Global)
					if !isG || g.Pkg == nil || !strings.HasPrefix(g.Pkg.Pkg.Path(), modPath) {
						continue
					}
					switch i := in.(type) {
					case *ssa.UnOp:
						continue // a load
					case *ssa.FieldAddr, *ssa.IndexAddr:
						continue // followed by rootGlobal below
					case *ssa.Store:
						if i.Addr == *op {
							continue
						}
					case *ssa.DebugRef:
						continue
					}
					written[g] = true
				}
				switch i := in.(type) {
				case *ssa.Store:
					if g := rootGlobal(i.Addr); g != nil {
						written[g] = true
					}
				case *ssa.MapUpdate:
					if g := rootGlobal(i.Map); g != nil {
						written[g] = true
					}
				case *ssa.Call:
					// delete(m, k) and clear(m) on a package-level map or slice are writes too
					if b, isB := i.Call.Value.(*ssa.Builtin); isB && (b.Name() == "delete" || b.Name() == "clear" || b.Name() == "copy") && len(i.Call.Args) > 0 {
						if g := rootGlobal(i.Call.Args[0]); g != nil {
							written[g] = true
						}
					}
				}
			}
		}
	}
	for _, p := range l.pkgs {
		sp := l.prog.Package(p.Types)
		if sp == nil {
			continue
		}
		for _, f := range p.Syntax {
			for _, d := range f.Decls {
				gd, ok := d.(*ast.GenDecl)
				if !ok || gd.Tok != token.VAR {
					continue
				}
				for _, s := range gd.Specs {
					vs := s.(*ast.ValueSpec)
					if len(vs.Values) != len(vs.Names) {
						continue
					}
					for i, n := range vs.Names {
						g, ok := sp.Members[n.Name].(*ssa.Global)
						if !ok {
							continue
						}
						x.globalsRO[g] = !written[g]
						expr := vs.Values[i]
						info := p.TypesInfo
						x.globalInit[g] = func(st *State) Val { return x.evalInit(st, info, sp, expr) }
						x.globalExpr(g, info, sp, expr)
					}
				}
			}
		}
	}
}

var globalExprs = map[*ssa.Global]struct {
	info *types.Info
	pkg  *ssa.Package
	e    ast.Expr
}{}

func (x *Exec) globalExpr(g *ssa.Global, info *types.Info, sp *ssa.Package, e ast.Expr) {
	globalExprs[g] = struct {
		info *types.Info
		pkg  *ssa.Package
		e    ast.Expr
	}{info, sp, e}
}

// evalInit evaluates a package-level initialiser (constants, composite
// literals, references to other read-only globals). nil = unknown.
func (x *Exec) evalInit(st *State, info *types.Info, sp *ssa.Package, e ast.Expr) Val {
	tv, ok := info.Types[e]
	if ok && tv.Value != nil {
		if t, ok := constToTerm(tv.Value); ok {
			return TV{x.w.SortOf(tv.Type), t}
		}
		if tv.Value.Kind() == constant.String {
			return TV{SSeqI, x.w.StrLit(constant.StringVal(tv.Value))}
		}
	}
	switch n := e.(type) {
	case *ast.ParenExpr:
		return x.evalInit(st, info, sp, n.X)
	case *ast.Ident:
		if obj, ok := info.Uses[n]; ok {
			if v, ok := obj.(*types.Var); ok && v.Pkg() != nil {
				if osp := x.prog.Package(v.Pkg()); osp != nil {
					if g, ok := osp.Members[v.Name()].(*ssa.Global); ok && x.globalsRO[g] {
						return x.globalLoad(st, g)
					}
				}
			}
		}
	case *ast.SelectorExpr:
		if obj, ok := info.Uses[n.Sel]; ok {
			if v, ok := obj.(*types.Var); ok && v.Pkg() != nil && !v.IsField() {
				if osp := x.prog.Package(v.Pkg()); osp != nil {
					if g, ok := osp.Members[v.Name()].(*ssa.Global); ok && x.globalsRO[g] {
						return x.globalLoad(st, g)
					}
				}
			}
		}
	case *ast.CompositeLit:
		t := tv.Type
		if t == nil {
			return nil
		}
		switch u := t.Underlying().(type) {
		case *types.Struct:
			sort := x.w.SortOf(t)
			d := x.w.DTByName(sort)
			if d == nil {
				return nil
			}
			fs := make([]string, len(d.Fields))
			for i := 0; i < u.NumFields(); i++ {
				fs[i] = x.zeroTerm(u.Field(i).Type())
			}
			for i, el := range n.Elts {
				idx := i
				val := el
				if kv, ok := el.(*ast.KeyValueExpr); ok {
					id, ok := kv.Key.(*ast.Ident)
					if !ok {
						return nil
					}
					idx = d.FieldIndex(id.Name)
					val = kv.Value
				}
				if idx < 0 || idx >= len(fs) {
					return nil
				}
				v := x.evalInit(st, info, sp, val)
				if v == nil {
					// a field initialised by a call (e.g. util.StringToGUID("...")): unknown, the
					// other fields of the literal keep their values
					v = x.symVal(st, "initfield", u.Field(idx).Type())
				}
				fs[idx] = x.toTV(st, v, u.Field(idx).Type()).E
			}
			return TV{sort, d.Make(fs)}
		case *types.Array, *types.Slice:
			var et types.Type
			if a, ok := u.(*types.Array); ok {
				et = a.Elem()
			} else {
				et = u.(*types.Slice).Elem()
			}
			sort := x.w.SortOf(t)
			s := sEmpty(sort)
			for _, el := range n.Elts {
				if _, ok := el.(*ast.KeyValueExpr); ok {
					return nil
				}
				v := x.evalInit(st, info, sp, el)
				if v == nil {
					return nil
				}
				s = sBuild(sort, s, x.toTV(st, v, et).E)
			}
			// concrete literal sequence: state its length and elements
			c := st.fresh("lit", sort)
			st.assume(tEq(c, s))
			st.assume(tEq(sLen(sort, c), num(int64(len(n.Elts)))))
			for i, el := range n.Elts {
				v := x.evalInit(st, info, sp, el)
				st.assume(tEq(sIdx(sort, c, num(int64(i))), x.toTV(st, v, et).E))
			}
			if isByteElem(et) {
				st.assume(app("g_isbytes", c))
			}
			return TV{sort, c}
		}
	}
	return nil
}

// mapInit: entries of a constant lookup table.
func (x *Exec) mapInit(st *State, g *ssa.Global) []mapEntry {
	ge, ok := globalExprs[g]
	if !ok {
		return nil
	}
	cl, ok := ge.e.(*ast.CompositeLit)
	if !ok {
		return nil
	}
	mt, ok := ge.info.Types[ge.e].Type.Underlying().(*types.Map)
	if !ok {
		return nil
	}
	var out []mapEntry
	for _, el := range cl.Elts {
		kv, ok := el.(*ast.KeyValueExpr)
		if !ok {
			return nil
		}
		k := x.evalInit(st, ge.info, ge.pkg, kv.Key)
		v := x.evalInit(st, ge.info, ge.pkg, kv.Value)
		if k == nil || v == nil {
			return nil
		}
		out = append(out, mapEntry{x.toTV(st, k, mt.Key()).E, x.toTV(st, v, mt.Elem()).E})
	}
	return out
}
