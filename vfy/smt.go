package main

// SMT term construction. Terms are SMT-LIB2 strings; integer literals are
// folded on the Go side so that concrete control flow (literal-bounded loops)
// stays concrete.

import (
	"fmt"
	"math/big"
	"strings"
)

const (
	SInt  = "Int"
	SBool = "Bool"
	SSeqI = "g_SeqI" // sequences of Int (bytes, refs, interface ids, strings)
)

func app(f string, args ...string) string {
	if len(args) == 0 {
		return f
	}
	return "(" + f + " " + strings.Join(args, " ") + ")"
}

func numLit(n *big.Int) string {
	if n.Sign() < 0 {
		return "(- " + new(big.Int).Neg(n).String() + ")"
	}
	return n.String()
}

func num(n int64) string { return numLit(big.NewInt(n)) }

// isNum recognises the literals produced by numLit.
func isNum(t string) (*big.Int, bool) {
	if t == "" {
		return nil, false
	}
	if strings.HasPrefix(t, "(- ") && strings.HasSuffix(t, ")") {
		inner := t[3 : len(t)-1]
		if n, ok := new(big.Int).SetString(inner, 10); ok && allDigits(inner) {
			return n.Neg(n), true
		}
		return nil, false
	}
	if allDigits(t) {
		n, ok := new(big.Int).SetString(t, 10)
		return n, ok
	}
	return nil, false
}

func allDigits(s string) bool {
	if s == "" {
		return false
	}
	for _, c := range s {
		if c < '0' || c > '9' {
			return false
		}
	}
	return true
}

func pow2(k uint) *big.Int { return new(big.Int).Lsh(big.NewInt(1), k) }

// splitPlusConst decomposes "(+ t c)" into (t, c).
func splitPlusConst(t string) (string, *big.Int, bool) {
	if strings.HasPrefix(t, "(+ ") {
		if args, ok := splitCtor(t, "+"); ok && len(args) == 2 {
			if c, isn := isNum(args[1]); isn {
				return args[0], c, true
			}
		}
	}
	return t, big.NewInt(0), false
}

func tAdd(a, b string) string {
	x, okx := isNum(a)
	y, oky := isNum(b)
	if okx && oky {
		return numLit(new(big.Int).Add(x, y))
	}
	if okx && !oky {
		a, b, x, y, okx, oky = b, a, y, x, oky, okx
	}
	if oky {
		if base, c, ok := splitPlusConst(a); ok {
			sum := new(big.Int).Add(c, y)
			if sum.Sign() == 0 {
				return base
			}
			return app("+", base, numLit(sum))
		}
	}
	if okx && x.Sign() == 0 {
		return b
	}
	if oky && y.Sign() == 0 {
		return a
	}
	return app("+", a, b)
}

func tSub(a, b string) string {
	x, okx := isNum(a)
	y, oky := isNum(b)
	if okx && oky {
		return numLit(new(big.Int).Sub(x, y))
	}
	if oky && y.Sign() == 0 {
		return a
	}
	if a == b {
		return "0"
	}
	if oky {
		return tAdd(a, numLit(new(big.Int).Neg(y)))
	}
	ba, ca, _ := splitPlusConst(a)
	bb, cb, _ := splitPlusConst(b)
	if ba == bb {
		return numLit(new(big.Int).Sub(ca, cb))
	}
	return app("-", a, b)
}

func tNeg(a string) string {
	if x, ok := isNum(a); ok {
		return numLit(new(big.Int).Neg(x))
	}
	return app("-", a)
}

func tMulC(a, b string) string { // at least one side should be constant for linearity
	x, okx := isNum(a)
	y, oky := isNum(b)
	if okx && oky {
		return numLit(new(big.Int).Mul(x, y))
	}
	if okx && x.Sign() == 0 || oky && y.Sign() == 0 {
		return "0"
	}
	if okx && x.Cmp(big.NewInt(1)) == 0 {
		return b
	}
	if oky && y.Cmp(big.NewInt(1)) == 0 {
		return a
	}
	if okx || oky {
		return app("*", a, b)
	}
	return app("g_mul", a, b)
}

// floor division / modulo (SMT-LIB semantics, divisor constant > 0)
func tDivC(a string, d *big.Int) string {
	if x, ok := isNum(a); ok {
		q := new(big.Int)
		m := new(big.Int)
		q.DivMod(x, d, m) // Euclidean; equals floor for d>0
		return numLit(q)
	}
	if d.Cmp(big.NewInt(1)) == 0 {
		return a
	}
	return app("div", a, numLit(d))
}

func tModC(a string, d *big.Int) string {
	if x, ok := isNum(a); ok {
		m := new(big.Int).Mod(x, d)
		return numLit(m)
	}
	return app("mod", a, numLit(d))
}

func tBool(b bool) string {
	if b {
		return "true"
	}
	return "false"
}

func cmpFold(op string, a, b string) (string, bool) {
	x, okx := isNum(a)
	y, oky := isNum(b)
	if !(okx && oky) {
		return "", false
	}
	c := x.Cmp(y)
	switch op {
	case "<":
		return tBool(c < 0), true
	case "<=":
		return tBool(c <= 0), true
	case ">":
		return tBool(c > 0), true
	case ">=":
		return tBool(c >= 0), true
	case "=":
		return tBool(c == 0), true
	}
	return "", false
}

func tCmp(op, a, b string) string {
	if r, ok := cmpFold(op, a, b); ok {
		return r
	}
	if a == b {
		switch op {
		case "<=", ">=", "=":
			return "true"
		case "<", ">":
			return "false"
		}
	}
	return app(op, a, b)
}

func tEq(a, b string) string {
	if a == b {
		return "true"
	}
	if r, ok := cmpFold("=", a, b); ok {
		return r
	}
	if a == "true" {
		return b
	}
	if b == "true" {
		return a
	}
	if a == "false" {
		return tNot(b)
	}
	if b == "false" {
		return tNot(a)
	}
	return app("=", a, b)
}

func tNot(a string) string {
	switch a {
	case "true":
		return "false"
	case "false":
		return "true"
	}
	if strings.HasPrefix(a, "(not ") {
		return a[5 : len(a)-1]
	}
	return app("not", a)
}

func tAnd(xs ...string) string {
	var out []string
	for _, x := range xs {
		if x == "false" {
			return "false"
		}
		if x == "true" || x == "" {
			continue
		}
		out = append(out, x)
	}
	switch len(out) {
	case 0:
		return "true"
	case 1:
		return out[0]
	}
	return app("and", out...)
}

func tOr(xs ...string) string {
	var out []string
	for _, x := range xs {
		if x == "true" {
			return "true"
		}
		if x == "false" || x == "" {
			continue
		}
		out = append(out, x)
	}
	switch len(out) {
	case 0:
		return "false"
	case 1:
		return out[0]
	}
	return app("or", out...)
}

func tImp(a, b string) string {
	if a == "true" {
		return b
	}
	if a == "false" || b == "true" {
		return "true"
	}
	return app("=>", a, b)
}

func tIte(c, a, b string) string {
	if c == "true" {
		return a
	}
	if c == "false" {
		return b
	}
	if a == b {
		return a
	}
	return app("ite", c, a, b)
}

// ---------------------------------------------------------------------------
// sequence helpers; seq sort names are "g_SeqI" or "g_Seq_<dt>"

func seqFn(sort, f string) string { return sort + "_" + f }

func sLen(sort, s string) string {
	if s == sEmpty(sort) {
		return "0"
	}
	if d, ok := termDefs[s]; ok && strings.HasPrefix(d, "("+seqFn(sort, "sl")+" ") {
		s = d
	}
	// len(sl(x,a,b)) = b-a (the slice bounds are established where the slice is built)
	if args, ok := splitCtor(s, seqFn(sort, "sl")); ok && len(args) == 3 {
		return tSub(args[2], args[1])
	}
	return app(seqFn(sort, "len"), s)
}
func sIdx(sort, s, i string) string {
	if d, ok := termDefs[s]; ok && strings.HasPrefix(d, "("+seqFn(sort, "sl")+" ") {
		s = d
	}
	// idx(sl(x,a,b),i) = idx(x,a+i)
	if args, ok := splitCtor(s, seqFn(sort, "sl")); ok && len(args) == 3 {
		return sIdx(sort, args[0], tAdd(args[1], i))
	}
	return app(seqFn(sort, "idx"), s, i)
}
// termDefs: definitions of named terms (name -> term), so that syntactic
// simplifications can look through names.
var termDefs = map[string]string{}

func sSl(sort, s, a, b string) string {
	if d, ok := termDefs[s]; ok && strings.HasPrefix(d, "("+seqFn(sort, "sl")+" ") {
		s = d
	}
	// sl(sl(x,p,q),a,b) = sl(x,p+a,p+b)
	if args, ok := splitCtor(s, seqFn(sort, "sl")); ok && len(args) == 3 {
		return sSl(sort, args[0], tAdd(args[1], a), tAdd(args[1], b))
	}
	if a == b {
		return sEmpty(sort)
	}
	return app(seqFn(sort, "sl"), s, a, b)
}
func sApp(sort, a, b string) string {
	if b == sEmpty(sort) {
		return a
	}
	if a == sEmpty(sort) {
		return b
	}
	// append(s, v): s ++ [v] is written build(s, v), whose length and elements have direct axioms
	pre := "(" + seqFn(sort, "build") + " " + sEmpty(sort) + " "
	if strings.HasPrefix(b, pre) && strings.HasSuffix(b, ")") {
		v := b[len(pre) : len(b)-1]
		if balanced(v) {
			return sBuild(sort, a, v)
		}
	}
	// the one-element literal as the compiler builds it: a fresh array of length 1, element 0 stored
	pre2 := "(" + seqFn(sort, "upd") + " (" + seqFn(sort, "rep") + " 1 "
	if strings.HasPrefix(b, pre2) && strings.HasSuffix(b, ")") {
		rest := b[len(pre2):] // <default>) 0 <v>)
		if i := strings.Index(rest, ") 0 "); i >= 0 && balanced(rest[:i]) {
			v := rest[i+4 : len(rest)-1]
			if balanced(v) {
				return sBuild(sort, a, v)
			}
		}
	}
	return app(seqFn(sort, "app"), a, b)
}

// balanced reports whether s is a single well-parenthesised term.
func balanced(s string) bool {
	d := 0
	for i := 0; i < len(s); i++ {
		switch s[i] {
		case '(':
			d++
		case ')':
			d--
			if d < 0 || (d == 0 && i != len(s)-1) {
				return false
			}
		case ' ':
			if d == 0 {
				return false
			}
		}
	}
	return d == 0
}
func sEmpty(sort string) string          { return seqFn(sort, "empty") }
func sBuild(sort, s, v string) string    { return app(seqFn(sort, "build"), s, v) }
func sUpd(sort, s, i, v string) string   { return app(seqFn(sort, "upd"), s, i, v) }
func sConst(sort, n, v string) string    { return app(seqFn(sort, "rep"), n, v) } // n copies of v
func sUnit(sort, v string) string        { return sBuild(sort, sEmpty(sort), v) }

// seqPrelude emits the axiomatised sequence theory for one element sort.
func seqPrelude(sort, elem string, quant bool) string {
	var b strings.Builder
	p := func(f string, a ...interface{}) { fmt.Fprintf(&b, f+"\n", a...) }
	S := sort
	p("(declare-fun %s_len (%s) Int)", S, S)
	p("(declare-fun %s_idx (%s Int) %s)", S, S, elem)
	p("(declare-fun %s_empty () %s)", S, S)
	p("(declare-fun %s_app (%s %s) %s)", S, S, S, S)
	p("(declare-fun %s_sl (%s Int Int) %s)", S, S, S)
	p("(declare-fun %s_build (%s %s) %s)", S, S, elem, S)
	p("(declare-fun %s_upd (%s Int %s) %s)", S, S, elem, S)
	p("(declare-fun %s_rep (Int %s) %s)", S, elem, S)
	p("(assert (= (%s_len %s_empty) 0))", S, S)
	p("(declare-fun %s_diff (%s %s) Int)", S, S, S)
	if !quant {
		return b.String()
	}
	p("(assert (forall ((s %s)) (! (>= (%s_len s) 0) :pattern ((%s_len s)))))", S, S, S)
	p("(assert (forall ((s %s)) (! (=> (= (%s_len s) 0) (= s %s_empty)) :pattern ((%s_len s)))))", S, S, S, S)
	p("(assert (forall ((a %s) (b %s)) (! (= (%s_len (%s_app a b)) (+ (%s_len a) (%s_len b))) :pattern ((%s_app a b)))))", S, S, S, S, S, S, S)
	p("(assert (forall ((a %s) (b %s) (i Int)) (! (=> (and (<= 0 i) (< i (%s_len a))) (= (%s_idx (%s_app a b) i) (%s_idx a i))) :pattern ((%s_idx (%s_app a b) i)))))", S, S, S, S, S, S, S, S)
	p("(assert (forall ((a %s) (b %s) (i Int)) (! (=> (and (<= (%s_len a) i) (< i (+ (%s_len a) (%s_len b)))) (= (%s_idx (%s_app a b) i) (%s_idx b (- i (%s_len a))))) :pattern ((%s_idx (%s_app a b) i)))))", S, S, S, S, S, S, S, S, S, S, S)
	p("(assert (forall ((s %s) (a Int) (b Int)) (! (=> (and (<= 0 a) (<= a b) (<= b (%s_len s))) (= (%s_len (%s_sl s a b)) (- b a))) :pattern ((%s_sl s a b)))))", S, S, S, S, S)
	p("(assert (forall ((s %s) (a Int) (b Int) (i Int)) (! (=> (and (<= 0 a) (<= a b) (<= b (%s_len s)) (<= 0 i) (< i (- b a))) (= (%s_idx (%s_sl s a b) i) (%s_idx s (+ a i)))) :pattern ((%s_idx (%s_sl s a b) i)))))", S, S, S, S, S, S, S)
	// extensionality
	p("(assert (forall ((a %s) (b %s)) (! (=> (and (= (%s_len a) (%s_len b)) (or (< (%s_diff a b) 0) (>= (%s_diff a b) (%s_len a)) (= (%s_idx a (%s_diff a b)) (%s_idx b (%s_diff a b))))) (= a b)) :pattern ((%s_diff a b)))))", S, S, S, S, S, S, S, S, S, S, S, S)
	p("(assert (forall ((s %s)) (! (= (%s_app s %s_empty) s) :pattern ((%s_app s %s_empty)))))", S, S, S, S, S)
	p("(assert (forall ((s %s)) (! (= (%s_app %s_empty s) s) :pattern ((%s_app %s_empty s)))))", S, S, S, S, S)
	p("(assert (forall ((a %s) (b %s) (c %s)) (! (= (%s_app a (%s_app b c)) (%s_app (%s_app a b) c)) :pattern ((%s_app a (%s_app b c))))))", S, S, S, S, S, S, S, S, S)
	p("(assert (forall ((s %s) (a Int) (b Int) (c Int)) (! (=> (and (<= 0 a) (<= a b) (<= b c) (<= c (%s_len s))) (= (%s_app (%s_sl s a b) (%s_sl s b c)) (%s_sl s a c))) :pattern ((%s_app (%s_sl s a b) (%s_sl s b c))))))", S, S, S, S, S, S, S, S, S)
	p("(assert (forall ((s %s) (a Int)) (! (=> (and (<= 0 a) (<= a (%s_len s))) (= (%s_app (%s_sl s 0 a) (%s_sl s a (%s_len s))) s)) :pattern ((%s_sl s a (%s_len s))) :qid needs.%s_app)))", S, S, S, S, S, S, S, S, S)
	p("(assert (forall ((s %s) (i Int) (j Int)) (! (=> (and (= j (+ i 1)) (<= 0 i) (< i (%s_len s))) (= (%s_sl s 0 j) (%s_build (%s_sl s 0 i) (%s_idx s i)))) :pattern ((%s_sl s 0 i) (%s_sl s 0 j)))))", S, S, S, S, S, S, S, S)
	p("(assert (forall ((s %s) (a Int)) (! (= (%s_sl s a a) %s_empty) :pattern ((%s_sl s a a)))))", S, S, S, S)
	p("(assert (forall ((s %s)) (! (= (%s_sl s 0 (%s_len s)) s) :pattern ((%s_sl s 0 (%s_len s))))))", S, S, S, S, S)
	p("(assert (forall ((x %s) (y %s) (a Int) (b Int)) (! (=> (and (<= 0 a) (<= a b) (<= b (%s_len x))) (= (%s_sl (%s_app x y) a b) (%s_sl x a b))) :pattern ((%s_sl (%s_app x y) a b)))))", S, S, S, S, S, S, S, S)
	p("(assert (forall ((x %s) (y %s) (a Int) (b Int)) (! (=> (and (<= (%s_len x) a) (<= a b) (<= b (+ (%s_len x) (%s_len y)))) (= (%s_sl (%s_app x y) a b) (%s_sl y (- a (%s_len x)) (- b (%s_len x))))) :pattern ((%s_sl (%s_app x y) a b)))))", S, S, S, S, S, S, S, S, S, S, S, S)
	p("(assert (forall ((x %s) (y %s) (a Int) (b Int)) (! (=> (and (<= 0 a) (<= a (%s_len x)) (<= (%s_len x) b) (<= b (+ (%s_len x) (%s_len y)))) (= (%s_sl (%s_app x y) a b) (%s_app (%s_sl x a (%s_len x)) (%s_sl y 0 (- b (%s_len x)))))) :pattern ((%s_sl (%s_app x y) a b)))))", S, S, S, S, S, S, S, S, S, S, S, S, S, S, S)
	// slice-of-slice is applied syntactically (sSl); as a quantified axiom it caused matching loops
	p("(assert (forall ((s %s) (v %s)) (! (= (%s_len (%s_build s v)) (+ (%s_len s) 1)) :pattern ((%s_build s v)))))", S, elem, S, S, S, S)
	p("(assert (forall ((s %s) (v %s) (i Int)) (! (= (%s_idx (%s_build s v) i) (ite (= i (%s_len s)) v (%s_idx s i))) :pattern ((%s_idx (%s_build s v) i)))))", S, elem, S, S, S, S, S, S)
	p("(assert (forall ((s %s) (v %s)) (! (= (%s_build s v) (%s_app s (%s_build %s_empty v))) :pattern ((%s_build s v)) :qid needs.%s_app)))", S, elem, S, S, S, S, S, S)
	p("(assert (forall ((s %s) (v %s)) (! (= (%s_sl (%s_build s v) 0 (%s_len s)) s) :pattern ((%s_build s v)))))", S, elem, S, S, S, S)
	// append of a sequence that ends in v ends in v; a non-empty sequence is its front with its last element
	p("(assert (forall ((s %s) (t %s) (v %s)) (! (= (%s_app s (%s_build t v)) (%s_build (%s_app s t) v)) :pattern ((%s_app s (%s_build t v))))))", S, S, elem, S, S, S, S, S, S)
	p("(assert (forall ((s %s) (k Int)) (! (=> (and (<= 0 k) (= (+ k 1) (%s_len s))) (= s (%s_build (%s_sl s 0 k) (%s_idx s k)))) :pattern ((%s_sl s 0 k)))))", S, S, S, S, S, S)
	p("(assert (forall ((s %s) (i Int) (v %s)) (! (= (%s_len (%s_upd s i v)) (%s_len s)) :pattern ((%s_upd s i v)))))", S, elem, S, S, S, S)
	p("(assert (forall ((s %s) (i Int) (v %s) (j Int)) (! (= (%s_idx (%s_upd s i v) j) (ite (and (= i j) (<= 0 i) (< i (%s_len s))) v (%s_idx s j))) :pattern ((%s_idx (%s_upd s i v) j)))))", S, elem, S, S, S, S, S, S)
	p("(assert (forall ((n Int) (v %s)) (! (=> (>= n 0) (= (%s_len (%s_rep n v)) n)) :pattern ((%s_rep n v)))))", elem, S, S, S)
	p("(assert (forall ((n Int) (v %s) (i Int)) (! (=> (and (<= 0 i) (< i n)) (= (%s_idx (%s_rep n v) i) v)) :pattern ((%s_idx (%s_rep n v) i)))))", elem, S, S, S, S)
	return b.String()
}

const intPrelude = `
(declare-fun g_mul (Int Int) Int)
(declare-fun g_band (Int Int) Int)
(declare-fun g_bor (Int Int) Int)
(declare-fun g_bxor (Int Int) Int)
(declare-fun g_shl (Int Int) Int)
(declare-fun g_shr (Int Int) Int)
(declare-fun g_quo (Int Int) Int)
(declare-fun g_rem (Int Int) Int)
`

const intPreludeQ = `
(assert (forall ((a Int) (b Int)) (! (= (g_mul a b) (* a b)) :pattern ((g_mul a b)))))
(assert (forall ((a Int) (b Int)) (! (=> (> b 0) (= (mod (g_mul a b) b) 0)) :pattern ((g_mul a b)))))
(assert (forall ((a Int) (b Int)) (! (=> (> a 0) (= (mod (g_mul a b) a) 0)) :pattern ((g_mul a b)))))
(assert (forall ((a Int) (b Int)) (! (=> (and (>= a 0) (>= b 0)) (and (<= 0 (g_band a b)) (<= (g_band a b) a) (<= (g_band a b) b))) :pattern ((g_band a b)))))
(assert (forall ((a Int)) (! (= (g_band a a) a) :pattern ((g_band a a)))))
(assert (forall ((a Int) (b Int)) (! (= (g_band a b) (g_band b a)) :pattern ((g_band a b)))))
(assert (forall ((a Int) (b Int)) (! (=> (and (>= a 0) (>= b 0)) (and (<= a (g_bor a b)) (<= b (g_bor a b)) (<= (g_bor a b) (+ a b)))) :pattern ((g_bor a b)))))
`

// codecPrelude: fixed-width little/big-endian codecs and the byte predicate.
func codecPrelude(quant bool) string {
	var b strings.Builder
	p := func(f string, a ...interface{}) { fmt.Fprintf(&b, f+"\n", a...) }
	S := SSeqI
	p("(declare-fun g_isbytes (%s) Bool)", S)
	for _, o := range []string{"le", "be"} {
		for _, w := range []int{16, 32, 64} {
			p("(declare-fun g_%s%d (%s) Int)", o, w, S)
			p("(declare-fun g_enc_%s%d (Int) %s)", o, w, S)
		}
	}
	p("(declare-fun g_enc8 (Int) %s)", S)
	if !quant {
		return b.String()
	}
	p("(assert (g_isbytes %s_empty))", S)
	p("(assert (forall ((s %s) (i Int)) (! (=> (and (g_isbytes s) (<= 0 i) (< i (%s_len s))) (and (<= 0 (%s_idx s i)) (<= (%s_idx s i) 255))) :pattern ((g_isbytes s) (%s_idx s i)))))", S, S, S, S, S)
	p("(assert (forall ((s %s) (a Int) (b Int)) (! (=> (g_isbytes s) (g_isbytes (%s_sl s a b))) :pattern ((%s_sl s a b)))))", S, S, S)
	p("(assert (forall ((a %s) (b %s)) (! (= (g_isbytes (%s_app a b)) (and (g_isbytes a) (g_isbytes b))) :pattern ((%s_app a b)))))", S, S, S, S)
	p("(assert (forall ((s %s) (v Int)) (! (=> (and (g_isbytes s) (<= 0 v) (<= v 255)) (g_isbytes (%s_build s v))) :pattern ((%s_build s v)))))", S, S, S)
	p("(assert (forall ((s %s) (i Int) (v Int)) (! (=> (and (g_isbytes s) (<= 0 v) (<= v 255)) (g_isbytes (%s_upd s i v))) :pattern ((%s_upd s i v)))))", S, S, S)
	p("(assert (forall ((n Int) (v Int)) (! (=> (and (<= 0 v) (<= v 255)) (g_isbytes (%s_rep n v))) :pattern ((%s_rep n v)))))", S, S)
	p("(assert (forall ((v Int)) (! (= (g_enc8 v) (%s_build %s_empty v)) :pattern ((g_enc8 v)))))", S, S)
	p("(assert (forall ((s %s) (i Int)) (! (=> (and (<= 0 i) (< i (%s_len s))) (= (g_enc8 (%s_idx s i)) (%s_sl s i (+ i 1)))) :pattern ((g_enc8 (%s_idx s i))))))", S, S, S, S, S)
	for _, o := range []string{"le", "be"} {
		for _, w := range []int{16, 32, 64} {
			n := w / 8
			f := fmt.Sprintf("g_%s%d", o, w)
			g := fmt.Sprintf("g_enc_%s%d", o, w)
			lim := pow2(uint(w)).String()
			p("(assert (forall ((s %s)) (! (and (<= 0 (%s s)) (< (%s s) %s)) :pattern ((%s s)))))", S, f, f, lim, f)
			p("(assert (forall ((v Int)) (! (and (= (%s_len (%s v)) %d) (g_isbytes (%s v))) :pattern ((%s v)))))", S, g, n, g, g)
			p("(assert (forall ((v Int)) (! (=> (and (<= 0 v) (< v %s)) (= (%s (%s v)) v)) :pattern ((%s v)))))", lim, f, g, g)
			p("(assert (forall ((s %s)) (! (=> (and (= (%s_len s) %d) (g_isbytes s)) (= (%s (%s s)) s)) :pattern ((%s s)))))", S, S, n, g, f, f)
			// byte-level definition
			var terms []string
			for k := 0; k < n; k++ {
				pos := k
				if o == "be" {
					pos = n - 1 - k
				}
				terms = append(terms, fmt.Sprintf("(* %s (%s_idx s %d))", pow2(uint(8*k)).String(), S, pos))
			}
			p("(assert (forall ((s %s)) (! (=> (and (= (%s_len s) %d) (g_isbytes s)) (= (%s s) (+ %s))) :pattern ((%s s)))))", S, S, n, f, strings.Join(terms, " "), f)
		}
	}
	return b.String()
}
