package main

// Skolemisation of the positive universal quantifiers of a goal.
//
// A goal  A ==> forall q. B(q)  is valid exactly when  A ==> B(c)  is valid for a
// fresh constant c.  Sending the second form to the solver matters for E-matching:
// after z3 negates and skolemises the first form itself, the interesting ground
// terms (the trigger of the quantifier with q replaced) often sit below a nested
// quantifier and never enter the E-graph, so hypotheses that need exactly that
// instance are never instantiated and the answer is `unknown`.  Doing it here
// also lets us assert a trivially true "seen" atom on every trigger term.

import (
	"fmt"
	"regexp"
	"strings"
	"sync"
)

type sx struct {
	atom string
	kids []*sx
}

func parseSx(s string) *sx {
	pos := 0
	var rec func() *sx
	rec = func() *sx {
		for pos < len(s) && (s[pos] == ' ' || s[pos] == '\n' || s[pos] == '\t') {
			pos++
		}
		if pos >= len(s) {
			return nil
		}
		if s[pos] == '(' {
			pos++
			n := &sx{}
			for {
				for pos < len(s) && (s[pos] == ' ' || s[pos] == '\n' || s[pos] == '\t') {
					pos++
				}
				if pos >= len(s) {
					return nil
				}
				if s[pos] == ')' {
					pos++
					return n
				}
				k := rec()
				if k == nil {
					return nil
				}
				n.kids = append(n.kids, k)
			}
		}
		st := pos
		if s[pos] == '"' {
			pos++
			for pos < len(s) && s[pos] != '"' {
				pos++
			}
			pos++
			return &sx{atom: s[st:pos]}
		}
		if s[pos] == '|' {
			pos++
			for pos < len(s) && s[pos] != '|' {
				pos++
			}
			pos++
			return &sx{atom: s[st:pos]}
		}
		for pos < len(s) && s[pos] != ' ' && s[pos] != '(' && s[pos] != ')' && s[pos] != '\n' && s[pos] != '\t' {
			pos++
		}
		return &sx{atom: s[st:pos]}
	}
	n := rec()
	for pos < len(s) && (s[pos] == ' ' || s[pos] == '\n') {
		pos++
	}
	if pos != len(s) {
		return nil
	}
	return n
}

func (n *sx) String() string {
	var b strings.Builder
	n.write(&b)
	return b.String()
}

func (n *sx) write(b *strings.Builder) {
	if n.kids == nil && n.atom != "" {
		b.WriteString(n.atom)
		return
	}
	b.WriteByte('(')
	for i, k := range n.kids {
		if i > 0 {
			b.WriteByte(' ')
		}
		k.write(b)
	}
	b.WriteByte(')')
}

func (n *sx) head() string {
	if len(n.kids) > 0 && n.kids[0].kids == nil {
		return n.kids[0].atom
	}
	return ""
}

func (n *sx) subst(m map[string]string) *sx {
	if n.kids == nil {
		if r, ok := m[n.atom]; ok {
			return &sx{atom: r}
		}
		return n
	}
	out := &sx{kids: make([]*sx, len(n.kids))}
	for i, k := range n.kids {
		out.kids[i] = k.subst(m)
	}
	return out
}

type skolemiser struct {
	x       *Exec
	n       int
	decls   []string
	assumes []string
	fnSort  map[string]string // result sort of declared functions and constants
}

var declRe = regexp.MustCompile(`\(declare-fun (\S+) \(([^)]*)\) ([^()\s]+)\)`)

// sortTable collects the result sorts of everything declared for a query.
func (x *Exec) sortTable(q *Query) map[string]string {
	sortTableMu.Lock()
	key := len(x.w.seqOrder)*1000003 + len(x.w.dtOrder)*1009 + len(x.w.extraDecl)
	base := sortTableBase
	if base == nil || sortTableKey != key {
		base = map[string]string{}
		for _, text := range []string{x.w.Prelude(true), codecPrelude(true), derPrelude(true), fmtPrelude(true), cryptoPrelude(), timePrelude(), pePrelude(x, true)} {
			for _, mm := range declRe.FindAllStringSubmatch(text, -1) {
				base[mm[1]] = mm[3]
			}
		}
		for _, d := range x.w.dtOrder {
			for i, f := range d.Fields {
				base[d.Sel(i)] = f.Sort
			}
		}
		sortTableBase, sortTableKey = base, key
	}
	sortTableMu.Unlock()
	m := map[string]string{}
	for _, d := range q.Decls {
		for _, mm := range declRe.FindAllStringSubmatch(d, -1) {
			m[mm[1]] = mm[3]
		}
	}
	m[""] = "" // marker: lookups fall back to the shared base table
	return m
}

var (
	sortTableMu   sync.Mutex
	sortTableBase map[string]string
	sortTableKey  int
)

// seqSortOf returns the sequence sort of a term, or "" when it is not a sequence or not known.
func (sk *skolemiser) seqSortOf(t *sx) string {
	var so string
	look := func(n string) string {
		if v, ok := sk.fnSort[n]; ok {
			return v
		}
		return sortTableBase[n]
	}
	if t.kids == nil {
		so = look(t.atom)
	} else if h := t.head(); h == "ite" && len(t.kids) == 4 {
		return sk.seqSortOf(t.kids[2])
	} else {
		so = look(h)
	}
	if _, ok := sk.x.w.seqSorts[so]; ok {
		return so
	}
	return ""
}

// resultSort gives the sort of a term from its head symbol where that is cheap to know.
func (sk *skolemiser) resultSort(t *sx) string {
	h := t.head()
	for s, el := range sk.x.w.seqSorts {
		if h == s+"_idx" && sk.x.w.DTByName(el) != nil {
			// only structured elements: a trigger on an integer element term sent the
			// instantiation of the sequence axioms into a long search (Parse, C13)
			return el
		}
	}
	return ""
}

func (sk *skolemiser) pos(n *sx) *sx {
	switch n.head() {
	case "=>":
		if len(n.kids) == 3 {
			return &sx{kids: []*sx{n.kids[0], n.kids[1], sk.pos(n.kids[2])}}
		}
	case "and", "or":
		out := &sx{kids: []*sx{n.kids[0]}}
		for _, k := range n.kids[1:] {
			out.kids = append(out.kids, sk.pos(k))
		}
		return out
	case "=":
		// a sequence equality to prove: name the extensionality witness, so that the
		// solver may argue "same length and same element at the distinguishing index"
		if len(n.kids) == 3 && sk.fnSort != nil {
			if so := sk.seqSortOf(n.kids[1]); so != "" && so == sk.seqSortOf(n.kids[2]) {
				sk.decls = append(sk.decls, "(declare-fun g_seen_Int (Int) Bool)")
				sk.assumes = append(sk.assumes, app("g_seen_Int", app(so+"_diff", n.kids[1].String(), n.kids[2].String())))
			}
		}
		return n
	case "forall":
		if len(n.kids) != 3 {
			return n
		}
		m := map[string]string{}
		for _, bv := range n.kids[1].kids {
			if len(bv.kids) != 2 || bv.kids[0].kids != nil {
				return n
			}
			sk.n++
			c := fmt.Sprintf("sk_%s_%d", bv.kids[0].atom, sk.n)
			sk.decls = append(sk.decls, fmt.Sprintf("(declare-fun %s () %s)", c, bv.kids[1].String()))
			m[bv.kids[0].atom] = c
		}
		body := n.kids[2]
		if body.head() == "!" && len(body.kids) >= 2 {
			for i := 2; i+1 < len(body.kids); i += 2 {
				if body.kids[i].atom != ":pattern" {
					continue
				}
				for _, p := range body.kids[i+1].kids {
					pt := p.subst(m)
					if so := sk.resultSort(pt); so != "" {
						sk.decls = append(sk.decls, fmt.Sprintf("(declare-fun g_seen_%s (%s) Bool)", so, so))
						sk.assumes = append(sk.assumes, app("g_seen_"+so, pt.String()))
					}
				}
			}
			body = body.kids[1]
		}
		return sk.pos(body.subst(m))
	}
	return n
}

// skolemGoal returns an equi-valid goal without positive universal quantifiers,
// the declarations of the constants introduced, and trivially satisfiable
// trigger atoms to assume.
func (x *Exec) skolemGoal(q *Query) (string, []string, []string) {
	goal := q.Goal
	if !strings.Contains(goal, "(forall ") && !strings.Contains(goal, "(= ") {
		return goal, nil, nil
	}
	t := parseSx(goal)
	if t == nil {
		return goal, nil, nil
	}
	sk := &skolemiser{x: x, fnSort: x.sortTable(q)}
	out := sk.pos(t)
	seen := map[string]bool{}
	var decls []string
	for _, d := range sk.decls {
		if !seen[d] {
			seen[d] = true
			decls = append(decls, d)
		}
	}
	return out.String(), decls, sk.assumes
}
