package main

// Assumed contracts: positional readers (io.ReaderAt, io.SectionReader,
// bytes.Reader), io.MultiReader, sort.Search, slices.SortFunc, debug/pe.

import (
	"fmt"
	"go/types"

	"golang.org/x/tools/go/ssa"
)

func viewDecl(x *Exec) {
	x.w.Decl("(declare-fun g_view (Int) " + SSeqI + ")")
	x.w.Decl("(declare-fun g_size (Int) Int)")
}

// raView: (view term, declared size term) of a positional reader value.
func (x *Exec) raView(st *State, v Val) (view, size string, ok bool) {
	viewDecl(x)
	switch u := v.(type) {
	case IfaceV:
		if u.Sym != "" {
			vw := app("g_view", u.Sym)
			st.assume(app("g_isbytes", vw))
			st.assume(tAnd(tCmp("<=", "0", sLen(SSeqI, vw)), tCmp("<=", sLen(SSeqI, vw), maxLenLit)))
			// a SizeReaderAt declares its own size; a plain ReaderAt is as long as its content
			if hasMethod(u.Static, "Size") {
				return vw, app("g_size", u.Sym), true
			}
			return vw, sLen(SSeqI, vw), true
		}
		if u.Payload != nil {
			return x.raView(st, u.Payload)
		}
	case PtrV:
		if u.Ref == "" || len(u.Path) != 0 {
			return "", "", false
		}
		d := x.w.DTByName(u.RootSort)
		switch ghostFor(u.Elem) {
		case "bytes.Reader":
			s := d.Get(0, st.heapSelect(u.RootSort, u.Ref))
			return s, sLen(SSeqI, s), true
		case "io.SectionReader":
			o := st.heapSelect(u.RootSort, u.Ref)
			return d.Get(0, o), d.Get(4, o), true
		}
		// any other object used as a ReaderAt (repository types): abstract view
		vw := app("g_view", u.Ref)
		st.assume(app("g_isbytes", vw))
		st.assume(tAnd(tCmp("<=", "0", sLen(SSeqI, vw)), tCmp("<=", sLen(SSeqI, vw), maxLenLit)))
		return vw, app("g_size", u.Ref), true
	}
	return "", "", false
}

func hasMethod(t types.Type, name string) bool {
	if t == nil {
		return false
	}
	it, ok := t.Underlying().(*types.Interface)
	if !ok {
		return false
	}
	for i := 0; i < it.NumMethods(); i++ {
		if it.Method(i).Name() == name {
			return true
		}
	}
	return false
}

func tMin(a, b string) string { return tIte(tCmp("<", a, b), a, b) }
func tMax(a, b string) string { return tIte(tCmp("<", a, b), b, a) }

// readAt: the contract of ReadAt(p, off) on a reader with the given view and
// declared size. Returns outcomes (n, err).
func (x *Exec) readAt(st *State, view, size string, p Val, pt types.Type, off string, faulty bool) []Outcome {
	pl := x.lenOf(st, p, pt)
	var outs []Outcome
	if faulty {
		f := st.fork()
		n := f.fresh("rn", SInt)
		f.assume(tAnd(tCmp("<=", "0", n), tCmp("<=", n, pl)))
		x.havocReachable(f, p)
		x.markFailed(f, "read")
		outs = append(outs, Outcome{f, TupleV{TV{SInt, n}, x.freshErr(f, "rderr")}})
	}
	// A: outside the declared size
	a := st.fork()
	a.assume(tOr(tCmp("<", off, "0"), tCmp(">=", off, size)))
	outs = append(outs, Outcome{a, TupleV{TV{SInt, "0"}, x.freshErr(a, "eof")}})
	st.assume(tAnd(tCmp("<=", "0", off), tCmp("<", off, size)))
	avail := tMax("0", tSub(sLen(SSeqI, view), off))
	want := tMin(pl, tSub(size, off))
	k := st.fresh("k", SInt)
	st.assume(tEq(k, tMin(want, avail)))
	st.assume(tAnd(tCmp("<=", "0", k), tCmp("<=", k, pl)))
	write := func(s *State) {
		if sv, ok := p.(SliceV); ok {
			cur, _ := s.cells[sv.Cell].(TV)
			total := x.cellLen(s, sv.Cell)
			nv := sApp(cur.S, sApp(cur.S, sSl(cur.S, cur.E, "0", sv.Lo), sSl(SSeqI, view, off, tAdd(off, k))), sSl(cur.S, cur.E, tAdd(sv.Lo, k), total))
			if s.frozen[sv.Cell] {
				s.kill("ReadAt into shared backing array")
			} else {
				s.cells[sv.Cell] = TV{cur.S, nv}
			}
		} else if pl != "0" && p != nil {
			s.kill("ReadAt into a slice without local owner (declare the parameter `outbuf`)")
		}
	}
	// B3: empty read: result not specified by io.ReaderAt
	e := st.fork()
	e.assume(tEq(pl, "0"))
	outs = append(outs, Outcome{e, TupleV{TV{SInt, "0"}, x.freshOrNilErr(e)}})
	st.assume(tCmp("<", "0", pl))
	// B2: short
	sh := st.fork()
	sh.assume(tCmp("<", k, pl))
	write(sh)
	outs = append(outs, Outcome{sh, TupleV{TV{SInt, k}, x.freshErr(sh, "eof")}})
	// B1: full
	st.assume(tEq(k, pl))
	write(st)
	outs = append(outs, Outcome{st, TupleV{TV{SInt, k}, nilErr()}})
	return outs
}

func (x *Exec) namedType(pkgPath, name string) types.Type {
	for _, p := range x.prog.AllPackages() {
		if p.Pkg.Path() == pkgPath {
			if m, ok := p.Members[name].(*ssa.Type); ok {
				return m.Type()
			}
		}
	}
	return nil
}

func init() {
	ext("io.NewSectionReader", "io.NewSectionReader(r, off, n): a reader of r's bytes [off, off+n) (clamped to r's content); Size() == n even when n is negative or exceeds the content; ReadAt at or beyond Size() returns io.EOF",
		func(x *Exec, st *State, fr *Frame, cc *ssa.CallCommon, args []Val, instr ssa.Instruction) []Outcome {
			t := cc.Signature().Results().At(0).Type().Underlying().(*types.Pointer).Elem()
			sort := x.w.SortOf(t)
			d := x.w.DTByName(sort)
			vs, _, ok := x.raView(st, args[0])
			off := x.toTV(st, args[1], types.Typ[types.Int64]).E
			n := x.toTV(st, args[2], types.Typ[types.Int64]).E
			if iv, isI := args[0].(IfaceV); isI && iv.Sym != "" {
				x.safe(st, fr, "nil", tNot(tEq(iv.Sym, "0")), instr)
			}
			var view string
			if !ok {
				view = x.freshBytes(st, "secview")
			} else {
				L := sLen(SSeqI, vs)
				view = st.fresh("secview", SSeqI)
				st.assume(app("g_isbytes", view))
				// regular case: exact bytes; otherwise nothing readable is claimed
				lo := tMin(off, L)
				sum := tAdd(off, n)
				hi := tMin(sum, L)
				st.assume(tIte(tAnd(tCmp("<=", "0", off), tCmp("<=", "0", n)),
					tEq(view, sSl(SSeqI, vs, lo, tMax(lo, hi))),
					tAnd(tCmp("<=", "0", sLen(SSeqI, view)), tCmp("<=", sLen(SSeqI, view), L))))
				st.assume(tAnd(tCmp("<=", "0", sLen(SSeqI, view)), tCmp("<=", sLen(SSeqI, view), L)))
			}
			r := st.allocRef()
			src := "0"
			if tv := x.toTVQuiet(st, args[0]); tv != "" {
				src = tv
			}
			st.heapStore(sort, r, d.Make([]string{view, "0", src, off, n}))
			viewDecl(x)
			st.assume(tAnd(tEq(app("g_view", r), view), tEq(app("g_size", r), n)))
			return one(st, PtrV{Ref: r, RootSort: sort, Elem: t})
		})
	ext("(*io.SectionReader).Size", "SectionReader.Size: the n given at construction",
		func(x *Exec, st *State, fr *Frame, cc *ssa.CallCommon, args []Val, instr ssa.Instruction) []Outcome {
			p, _ := args[0].(PtrV)
			x.nilCheck(st, fr, p, instr)
			_, size, ok := x.raView(st, args[0])
			if !ok {
				return one(st, x.symResult(st, cc))
			}
			return one(st, TV{SInt, size})
		})
	raReadAt := func(x *Exec, st *State, fr *Frame, cc *ssa.CallCommon, args []Val, instr ssa.Instruction) []Outcome {
		if p, ok := args[0].(PtrV); ok {
			x.nilCheck(st, fr, p, instr)
		}
		view, size, ok := x.raView(st, args[0])
		if !ok {
			x.havocForUnknown(st, args)
			return one(st, x.symResult(st, cc))
		}
		off := x.toTV(st, args[2], types.Typ[types.Int64]).E
		return x.readAt(st, view, size, args[1], cc.Args[1].Type(), off, false)
	}
	ext("(*io.SectionReader).ReadAt", "SectionReader.ReadAt(p, off): io.EOF for off outside [0, Size()); otherwise copies min(len(p), Size()-off, available) bytes of the section; nil iff len(p) bytes were copied", raReadAt)
	ext("(*bytes.Reader).ReadAt", "bytes.Reader.ReadAt(p, off): copies min(len(p), len-off) bytes; nil iff len(p) bytes were copied", raReadAt)
	ifaceMethods["ReadAt"] = func(x *Exec, st *State, fr *Frame, cc *ssa.CallCommon, iv IfaceV, args []Val, instr ssa.Instruction) []Outcome {
		view, size, ok := x.raView(st, iv)
		if !ok || len(args) != 2 {
			return nil
		}
		off := x.toTV(st, args[1], types.Typ[types.Int64]).E
		return x.readAt(st, view, size, args[0], cc.Args[0].Type(), off, x.faulty)
	}
	externDoc["interface method ReadAt"] = "io.ReaderAt.ReadAt(p, off) on a caller-supplied reader with content view(r): error for off outside the content; copies min(len(p), available); nil iff len(p) > 0 bytes were copied; in fault mode any call may fail"

	ext("io.MultiReader", "io.MultiReader(rs...): a reader yielding the concatenation of what the readers still hold (they are consumed by it)",
		func(x *Exec, st *State, fr *Frame, cc *ssa.CallCommon, args []Val, instr ssa.Instruction) []Outcome {
			sv, ok := args[0].(SliceV)
			var arr ArrV
			if ok {
				arr, ok = st.cells[sv.Cell].(ArrV)
			}
			rt := x.namedType("bytes", "Reader")
			if !ok || rt == nil {
				x.havocForUnknown(st, args)
				return one(st, x.symResult(st, cc))
			}
			all := sEmpty(SSeqI)
			for _, e := range arr.Elems {
				rd := x.readerOf(st, e)
				if rd == nil {
					all = sApp(SSeqI, all, x.freshBytes(st, "mr"))
					continue
				}
				rem := rd.get(st)
				if all == sEmpty(SSeqI) {
					all = rem
				} else {
					all = sApp(SSeqI, all, rem)
				}
				rd.set(st, sEmpty(SSeqI))
			}
			sort := x.w.SortOf(rt)
			d := x.w.DTByName(sort)
			r := st.allocRef()
			st.heapStore(sort, r, d.Make([]string{all, "0"}))
			return one(st, IfaceV{Dyn: types.NewPointer(rt), Payload: PtrV{Ref: r, RootSort: sort, Elem: rt}, Static: cc.Signature().Results().At(0).Type()})
		})

	cpsExterns["sort.Search"] = func(x *Exec, st *State, fr *Frame, cc *ssa.CallCommon, args []Val, instr ssa.Instruction, k cont) {
		n := x.toTV(st, args[0], types.Typ[types.Int]).E
		clo, ok := args[1].(ClosureV)
		if !ok || clo.Fn == nil {
			k(st, fr, x.symResult(st, cc))
			return
		}
		x.extUsed["sort.Search"] = true
		r := st.fresh("search", SInt)
		st.assume(tAnd(tCmp("<=", "0", r), tCmp("<=", r, tMax(n, "0"))))
		call := func(st *State, fr *Frame, arg string, then func(st *State, fr *Frame, res string)) {
			x.inline(st, fr, clo.Fn, x.contracts[fnName(clo.Fn)], clo.Bind, []Val{TV{SInt, arg}}, func(st *State, fr *Frame, v Val) {
				tv, _ := v.(TV)
				then(st, fr, tv.E)
			})
		}
		// case split: r == n / r < n, r == 0 / r > 0
		type cs struct{ atN, zero bool }
		cases := []cs{{true, true}, {true, false}, {false, true}, {false, false}}
		for i, c := range cases {
			s, f := st, fr
			if i < len(cases)-1 {
				s, f = st.fork(), fr.copy()
			}
			if c.atN {
				s.assume(tEq(r, tMax(n, "0")))
			} else {
				s.assume(tCmp("<", r, n))
			}
			if c.zero {
				s.assume(tEq(r, "0"))
			} else {
				s.assume(tCmp("<", "0", r))
			}
			c := c
			finish := func(s *State, f *Frame) { k(s, f, TV{SInt, r}) }
			step2 := func(s *State, f *Frame) {
				if c.zero {
					finish(s, f)
					return
				}
				call(s, f, tSub(r, "1"), func(s *State, f *Frame, res string) {
					s.assume(tNot(res))
					finish(s, f)
				})
			}
			if c.atN {
				step2(s, f)
			} else {
				call(s, f, r, func(s *State, f *Frame, res string) {
					s.assume(res)
					step2(s, f)
				})
			}
		}
	}
	externDoc["sort.Search"] = "sort.Search(n, f): r in [0, n] with (r < n => f(r)) and (r > 0 => !f(r-1)); f is evaluated symbolically at those two points"

	ext("slices.SortFunc", "slices.SortFunc(s, cmp): s becomes a permutation of its elements; for cmp of the form cmp.Compare(a.key, b.key) the result is ascending in key",
		func(x *Exec, st *State, fr *Frame, cc *ssa.CallCommon, args []Val, instr ssa.Instruction) []Outcome {
			t := cc.Args[0].Type()
			sort, old := x.seqOf(st, args[0], t)
			nw := st.fresh("sorted", sort)
			x.w.Decl(fmt.Sprintf("(declare-fun g_permidx_%s (%s %s Int) Int)", sort, sort, sort))
			st.assume(tEq(sLen(sort, nw), sLen(sort, old)))
			x.freshN++
			q := fmt.Sprintf("q_i_%d", x.freshN)
			pi := app("g_permidx_"+sort, old, nw, q)
			st.assume(fmt.Sprintf("(forall ((%s Int)) (! (=> (and (<= 0 %s) (< %s %s)) (and (<= 0 %s) (< %s %s) (= %s %s))) :pattern (%s)))",
				q, q, q, sLen(sort, nw), pi, pi, sLen(sort, old), sIdx(sort, nw, q), sIdx(sort, old, pi), sIdx(sort, nw, q)))
			// ordering: for a comparator of the form cmp.Compare(a.key, b.key) on struct pointers the
			// result is ascending in that key (read from the heap as it is at the call)
			if clo, ok := args[1].(ClosureV); ok {
				if path, ok := cmpKeyPath(clo.Fn); ok {
					if sl, ok := t.Underlying().(*types.Slice); ok {
						if pt, ok := sl.Elem().Underlying().(*types.Pointer); ok && isStructLike(pt.Elem()) {
							esort := x.w.SortOf(pt.Elem())
							H := st.heap(esort)
							x.freshN++
							qi, qj := fmt.Sprintf("q_i_%d", x.freshN), fmt.Sprintf("q_j_%d", x.freshN)
							ki, _, ok1 := x.fieldTerm(pt.Elem(), app("select", H, sIdx(sort, nw, qi)), path)
							kj, _, ok2 := x.fieldTerm(pt.Elem(), app("select", H, sIdx(sort, nw, qj)), path)
							if ok1 && ok2 {
								st.assume(fmt.Sprintf("(forall ((%s Int) (%s Int)) (! (=> (and (<= 0 %s) (< %s %s) (< %s %s)) (<= %s %s)) :pattern (%s %s)))",
									qi, qj, qi, qi, qj, qj, sLen(sort, nw), ki, kj, sIdx(sort, nw, qi), sIdx(sort, nw, qj)))
								x.note("slices.SortFunc: ascending order by the comparator key assumed")
							}
						}
					}
				}
			}
			// in-place: every later use of the slice variable sees the permuted elements
			fr.vals[cc.Args[0]] = TV{sort, nw}
			st.ghost["sortedfrom:"+nw] = TV{sort, old}
			if sort == SSeqI {
				st.ghost["lastsorted"] = TV{sort, nw}
				st.ghost["sortinput"] = TV{sort, old}
			}
			return one(st, nil)
		})

	ext("debug/pe.NewFile", "pe.NewFile(r): an error, or a non-nil *pe.File whose Sections are non-nil and whose OptionalHeader is nil, *OptionalHeader32 or *OptionalHeader64; SizeOfHeaders, DataDirectory[4] and each section's Offset/Size are functions of the image bytes (peSoh, peCertVA, peCertSize, secoff, secsize), a section with Offset != 0 reads the image bytes [Offset, Offset+Size) clamped to the image; never panics and allocates proportionally to the input (assumed)",
		func(x *Exec, st *State, fr *Frame, cc *ssa.CallCommon, args []Val, instr ssa.Instruction) []Outcome {
			bad := st.fork()
			res := cc.Signature().Results()
			ft := res.At(0).Type()
			fileT := ft.Underlying().(*types.Pointer).Elem()
			f := x.symVal(st, "pefile", ft).(PtrV)
			st.assume(tNot(tEq(f.Ref, "0")))
			st.advanceTop()
			sort := x.w.SortOf(fileT)
			d := x.w.DTByName(sort)
			o := st.heapSelect(sort, f.Ref)
			if i := d.FieldIndex("Sections"); i >= 0 {
				secs := d.Get(i, o)
				ss := d.Fields[i].Sort
				x.freshN++
				q := fmt.Sprintf("q_i_%d", x.freshN)
				st.assume(fmt.Sprintf("(forall ((%s Int)) (! (=> (and (<= 0 %s) (< %s %s)) (and (< 0 %s) (< %s %s))) :pattern (%s)))",
					q, q, q, sLen(ss, secs), sIdx(ss, secs, q), sIdx(ss, secs, q), st.top, sIdx(ss, secs, q)))
				st.assume(tAnd(tCmp("<=", "0", sLen(ss, secs)), tCmp("<=", sLen(ss, secs), "65535")))
			}
			if i := d.FieldIndex("OptionalHeader"); i >= 0 {
				oh := d.Get(i, o)
				dynDecl(x)
				t32 := x.namedType("debug/pe", "OptionalHeader32")
				t64 := x.namedType("debug/pe", "OptionalHeader64")
				if t32 != nil && t64 != nil {
					st.assume(tOr(tEq(oh, "0"),
						tEq(app("g_dyn", oh), num(x.typeTag(types.NewPointer(t32)))),
						tEq(app("g_dyn", oh), num(x.typeTag(types.NewPointer(t64))))))
					st.assume(tAnd(tCmp("<=", "0", oh), tCmp("<", oh, st.top)))
				}
			}
			if F, _, ok := x.raView(st, args[0]); ok {
				x.peTies(st, fileT, f.Ref, F)
			}
			return []Outcome{{bad, TupleV{PtrV{Nil: true, Elem: fileT}, x.freshErr(bad, "peerr")}}, {st, TupleV{f, nilErr()}}}
		})
}

// toTVQuiet: identity term of a value if it has one.
func (x *Exec) toTVQuiet(st *State, v Val) string {
	switch u := v.(type) {
	case IfaceV:
		if u.Sym != "" {
			return u.Sym
		}
		if u.Payload != nil {
			return x.toTVQuiet(st, u.Payload)
		}
	case PtrV:
		if u.Ref != "" && len(u.Path) == 0 {
			return u.Ref
		}
	}
	return ""
}

func init() {
	specFuncs["size"] = func(e *specEnv, args []SV) SV {
		viewDecl(e.x)
		if _, n, ok := e.x.raViewPure(e.st, args[0].V); ok {
			return SV{V: TV{SInt, n}}
		}
		return SV{V: TV{SInt, app("g_size", e.term(args[0]))}}
	}
	specFuncs["view"] = func(e *specEnv, args []SV) SV {
		viewDecl(e.x)
		if v, _, ok := e.x.raViewPure(e.st, args[0].V); ok {
			return SV{V: TV{SSeqI, v}, T: types.NewSlice(types.Typ[types.Uint8])}
		}
		return SV{V: TV{SSeqI, app("g_view", e.term(args[0]))}, T: types.NewSlice(types.Typ[types.Uint8])}
	}
}

// raViewPure: like raView but without adding assumptions (spec context).
func (x *Exec) raViewPure(st *State, v Val) (string, string, bool) {
	switch u := v.(type) {
	case IfaceV:
		if u.Sym != "" {
			return app("g_view", u.Sym), app("g_size", u.Sym), true
		}
		if u.Payload != nil {
			return x.raViewPure(st, u.Payload)
		}
	case PtrV:
		if u.Ref == "" || len(u.Path) != 0 {
			return "", "", false
		}
		d := x.w.DTByName(u.RootSort)
		switch ghostFor(u.Elem) {
		case "bytes.Reader":
			s := d.Get(0, st.heapSelect(u.RootSort, u.Ref))
			return s, sLen(SSeqI, s), true
		case "io.SectionReader":
			o := st.heapSelect(u.RootSort, u.Ref)
			return d.Get(0, o), d.Get(4, o), true
		}
		return app("g_view", u.Ref), app("g_size", u.Ref), true
	}
	return "", "", false
}

// Out-buffer windows in contracts: a parameter declared `outbuf` is a window [lo, hi) onto a
// backing array; re-slicing (p = p[k:]) moves the window, writes go through to the array.
func init() {
	byteSlice := types.NewSlice(types.Typ[types.Uint8])
	win := func(e *specEnv, v SV) (SliceV, bool) {
		sv, ok := v.V.(SliceV)
		return sv, ok
	}
	specFuncs["whole"] = func(e *specEnv, args []SV) SV { // the whole backing array as it is now
		sv, ok := win(e, args[0])
		if !ok {
			return e.fail("whole() needs an out-buffer window")
		}
		if tv, ok := e.st.cells[sv.Cell].(TV); ok {
			return SV{V: tv, T: byteSlice}
		}
		return e.fail("whole(): backing array is not a sequence")
	}
	specFuncs["winlo"] = func(e *specEnv, args []SV) SV {
		sv, ok := win(e, args[0])
		if !ok {
			return e.fail("winlo() needs an out-buffer window")
		}
		return SV{V: TV{SInt, sv.Lo}}
	}
	specFuncs["winhi"] = func(e *specEnv, args []SV) SV {
		sv, ok := win(e, args[0])
		if !ok {
			return e.fail("winhi() needs an out-buffer window")
		}
		return SV{V: TV{SInt, sv.Hi}}
	}
}
