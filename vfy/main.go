package main

import (
	"flag"
	"fmt"
	"go/token"
	"os"
	"sort"
	"strings"
	"time"

	"golang.org/x/tools/go/ssa"
)

var repoRoot = "/repo"
var verifRoot = "/verif"
var outRoot = verifRoot

func newExec(l *Loaded) (*Exec, error) {
	x := &Exec{w: NewWorld(), prog: l.prog, fset: l.fset, trivial: map[string]int{}, typeTags: map[string]int64{},
		ordinals: map[*ssa.Function]map[ssa.Instruction]string{}, loops: map[*ssa.Function]*LoopInfo{},
		errClass: map[string]int64{}, heapDefs: map[string]heapDef{}, extUsed: map[string]bool{}, maxPaths: 4000}
	cs, _, err := loadContracts(l.root, l.pkgPathOfDir)
	if err != nil {
		return nil, err
	}
	x.contracts = cs
	for name := range cs {
		if _, ok := l.funcs[name]; !ok {
			return nil, fmt.Errorf("contract for unknown function %s", name)
		}
	}
	x.scanGlobals(l)
	return x, nil
}

func (x *Exec) specText(quant bool) []string {
	return specPrelude(x, quant)
}

func main() {
	if len(os.Args) < 2 {
		fmt.Println("usage: vfy check <id> [--tier quick|thorough] | sweep <substr> | replay <file> | selftest")
		os.Exit(2)
	}
	switch os.Args[1] {
	case "sweep":
		cmdSweep(os.Args[2:])
	case "check":
		os.Exit(cmdCheck(os.Args[2:]))
	case "replay":
		os.Exit(cmdReplay(os.Args[2:]))
	case "selftest":
		os.Exit(cmdSelftest(os.Args[2:]))
	case "names":
		l, err := loadRepo(repoRoot)
		if err != nil {
			fmt.Println(err)
			os.Exit(2)
		}
		x, err := newExec(l)
		if err != nil {
			fmt.Println(err)
			os.Exit(2)
		}
		cmdNames(l, x)
	case "funcs":
		l, err := loadRepo(repoRoot)
		if err != nil {
			fmt.Println(err)
			os.Exit(2)
		}
		var names []string
		for n := range l.funcs {
			names = append(names, n)
		}
		sort.Strings(names)
		for _, n := range names {
			fmt.Println(n)
		}
	default:
		fmt.Println("unknown command")
		os.Exit(2)
	}
}

func cmdSweep(args []string) {
	fs := flag.NewFlagSet("sweep", flag.ExitOnError)
	dump := fs.String("dump", "", "directory for SMT files of failed queries")
	tier := fs.String("tier", "quick", "")
	verbose := fs.Bool("v", false, "")
	nosolve := fs.Bool("nosolve", false, "")
	dumpall := fs.Bool("dumpall", false, "with -dump: write every query, not only the failed ones")
	root := fs.String("repo", repoRoot, "")
	faulty := fs.Bool("faulty", false, "fault mode: caller-supplied dependencies may fail")
	fs.Parse(args)
	t0 := time.Now()
	l, err := loadRepo(*root)
	if err != nil {
		fmt.Println("load:", err)
		os.Exit(2)
	}
	fmt.Printf("loaded in %.1fs, %d functions\n", time.Since(t0).Seconds(), len(l.funcs))
	x, err := newExec(l)
	if err != nil {
		fmt.Println(err)
		os.Exit(2)
	}
	var names []string
	for n := range l.funcs {
		for _, pat := range fs.Args() {
			if strings.Contains(n, pat) {
				names = append(names, n)
				break
			}
		}
	}
	sort.Strings(names)
	for _, n := range names {
		tu := time.Now()
		q0 := len(x.queries)
		x.faulty = *faulty
		x.verifyUnit(l.funcs[n])
		if *verbose || time.Since(tu) > time.Second {
			fmt.Printf("unit %s: %d queries, %d paths, %d steps, %.1fs\n", n, len(x.queries)-q0, x.pathN, x.totalSteps, time.Since(tu).Seconds())
		}
	}
	fmt.Printf("generated %d queries (%d trivial) in %.1fs\n", len(x.queries), len(x.trivial), time.Since(t0).Seconds())
	if *dumpall && *dump != "" {
		for i, q := range x.queries {
			dumpQuery(*dump, x, q, i)
		}
	}
	if *nosolve {
		x.queries = nil
	}
	res := x.dischargeAll(x.queries, *tier, 16)
	agg := aggregate(res)
	fail := 0
	for _, a := range agg {
		if a.ok {
			if *verbose {
				fmt.Printf("ok    %s (%d paths, %.2fs, %s)\n", a.name, a.n, a.secs, a.backend)
			}
			continue
		}
		fail++
		fmt.Printf("FAIL  %s [%s] %s\n", a.name, a.answer, a.pos)
		if *dump != "" {
			for i, r := range a.results {
				if r.Answer != "unsat" || a.smoke {
					p := dumpQuery(*dump, x, r.Q, i)
					fmt.Printf("      %s\n", p)
					break
				}
			}
		}
	}
	for _, o := range uniq(x.oos) {
		fmt.Println("OOS  ", o)
	}
	var notes []string
	for n := range x.notes {
		notes = append(notes, n)
	}
	sort.Strings(notes)
	for _, n := range notes {
		fmt.Println("NOTE ", n)
	}
	fmt.Printf("%d obligations, %d failed, %.1fs\n", len(agg), fail, time.Since(t0).Seconds())
}

func uniq(xs []string) []string {
	seen := map[string]bool{}
	var out []string
	for _, s := range xs {
		if !seen[s] {
			seen[s] = true
			out = append(out, s)
		}
	}
	return out
}

type aggOb struct {
	name    string
	kind    string
	label   string
	n       int
	ok      bool
	answer  string
	secs    float64
	maxq    float64 // slowest single path query
	retried int
	backend string
	pos     string
	smoke   bool
	results []*Result
}

// aggregate groups path queries by obligation name.
func aggregate(res []*Result) []*aggOb {
	m := map[string]*aggOb{}
	var order []string
	for _, r := range res {
		a := m[r.Q.Name]
		if a == nil {
			a = &aggOb{name: r.Q.Name, kind: r.Q.Kind, label: r.Q.Label, ok: true, pos: r.Q.Pos, smoke: r.Q.Smoke}
			if a.smoke {
				a.ok = false
			}
			m[r.Q.Name] = a
			order = append(order, r.Q.Name)
		}
		a.n++
		a.secs += r.Seconds
		if r.Seconds > a.maxq {
			a.maxq = r.Seconds
		}
		if r.Retried {
			a.retried++
		}
		a.results = append(a.results, r)
		if a.smoke {
			// vacuity: at least one path must NOT be unsat
			if r.Answer != "unsat" && r.Answer != "error" {
				a.ok = true
				a.backend = r.Backend
			} else if a.answer == "" {
				a.answer = "vacuous:" + r.Answer
			}
			continue
		}
		if r.Answer != "unsat" {
			if a.ok {
				a.answer = r.Answer
				a.pos = r.Q.Pos
			}
			a.ok = false
		} else if a.backend == "" {
			a.backend = r.Backend
		}
	}
	var out []*aggOb
	for _, n := range order {
		out = append(out, m[n])
	}
	return out
}

var _ = token.NoPos
