package main

import (
	"fmt"
	"sort"
	"go/ast"
	"go/types"
	"strings"

	"golang.org/x/tools/go/ssa"
)

// resultNames gives the names by which a contract refers to results.
func resultNames(sig *types.Signature) []string {
	res := sig.Results()
	names := make([]string, res.Len())
	for i := 0; i < res.Len(); i++ {
		n := res.At(i).Name()
		if n == "" || n == "_" {
			switch {
			case isErrorType(res.At(i).Type()) && i == res.Len()-1:
				n = "err"
			case res.Len() == 1 || (res.Len() == 2 && i == 0):
				n = "result"
			default:
				n = fmt.Sprintf("result%d", i)
			}
		}
		names[i] = n
	}
	return names
}

func (x *Exec) bindResults(sig *types.Signature, res []Val) map[string]SV {
	b := map[string]SV{}
	names := resultNames(sig)
	for i, n := range names {
		if i < len(res) {
			b[n] = SV{V: res[i], T: sig.Results().At(i).Type()}
			b[fmt.Sprintf("result%d", i)] = b[n]
		}
	}
	if len(res) > 0 {
		b["result"] = SV{V: res[0], T: sig.Results().At(0).Type()}
	}
	return b
}

// verifyUnit generates all obligations of one function.
func (x *Exec) verifyUnit(fn *ssa.Function) {
	x.unit = fn
	x.unitC = x.contracts[fnName(fn)]
	x.pathN = 0
	x.returned = 0
	x.initialHeaps = map[string]string{}
	x.initialTrace, x.initialStore = "", ""
	x.initialClock = ""
	x.totalSteps = 0
	x.stepBudget = 400000
	x.budgetHit = false
	st := &State{x: x, cells: map[*Cell]Val{}, frozen: map[*Cell]bool{}, heaps: map[string]string{}, ghost: map[string]Val{}, visits: map[*ssa.BasicBlock]int{}}
	st.top = st.fresh("top0", SInt)
	st.assume(tCmp("<=", "1", st.top))
	fr := &Frame{fn: fn, vals: map[ssa.Value]Val{}, params: map[string]Val{}, cutLoops: map[int]*loopCut{}, contract: x.unitC}
	x.unitFrame = fr
	var sizeTerms []string
	for i, p := range fn.Params {
		v := x.symVal(st, p.Name(), p.Type())
		_ = i
		if x.unitC != nil && x.unitC.Outbuf[p.Name()] {
			// an out-buffer: the callee owns a window onto caller memory
			if tv, ok := v.(TV); ok {
				c := st.newCell(p.Name()+"_buf", p.Type(), tv)
				st.ghost[fmt.Sprintf("len:%d", c.id)] = TV{SInt, sLen(tv.S, tv.E)}
				v = SliceV{Cell: c, Lo: "0", Hi: sLen(tv.S, tv.E)}
			}
		}
		// pointer and interface parameters are non-nil unless the contract says `nullable <name>`
		// (checked at every call that goes through a contract)
		if x.unitC == nil || !x.unitC.Nullable[p.Name()] {
			switch pv := v.(type) {
			case PtrV:
				if pv.Ref != "" {
					st.assume(tNot(tEq(pv.Ref, "0")))
				}
			case IfaceV:
				if pv.Sym != "" {
					st.assume(tNot(tEq(pv.Sym, "0")))
				}
			}
		}
		fr.vals[p] = v
		fr.params[p.Name()] = v
		switch u := v.(type) {
		case TV:
			if _, isSeq := x.w.seqSorts[u.S]; isSeq {
				if _, isArr := p.Type().Underlying().(*types.Array); !isArr {
					sizeTerms = append(sizeTerms, sLen(u.S, u.E))
				}
			}
		case IfaceV:
			if g, ok := st.ghost["rem:"+u.Sym]; ok {
				sizeTerms = append(sizeTerms, sLen(SSeqI, g.(TV).E))
			}
		case PtrV:
			if u.Ref != "" && ghostFor(u.Elem) == "bytes.Buffer" {
				d := x.w.DTByName(u.RootSort)
				c := d.Get(0, st.heapSelect(u.RootSort, u.Ref))
				st.assume(app("g_isbytes", c))
				sizeTerms = append(sizeTerms, sLen(SSeqI, c))
			}
		}
	}
	for _, fv := range fn.FreeVars {
		v := x.symVal(st, fv.Name(), fv.Type())
		if pv, ok := v.(PtrV); ok && pv.Ref != "" {
			st.assume(tNot(tEq(pv.Ref, "0")))
		}
		fr.vals[fv] = v
		fr.params[fv.Name()] = v
		// captured readers count as input
		if pv, ok := v.(PtrV); ok && pv.Cell != nil {
			if iv, ok := st.cells[pv.Cell].(IfaceV); ok {
				if g, ok := st.ghost["rem:"+iv.Sym]; ok {
					sizeTerms = append(sizeTerms, sLen(SSeqI, g.(TV).E))
				}
			}
		}
	}
	unitInputs[fnName(fn)] = x.describeInputs(st, fn, fr)
	unitFuncs[fnName(fn)] = fn
	x.inputSize = "0"
	for _, t := range sizeTerms {
		x.inputSize = tAdd(x.inputSize, t)
	}
	fr.entry = st.fork()
	if x.unitC != nil {
		if x.unitC.InputSize != nil {
			x.inputSize = x.evalTerm(st, fr, x.unitC.InputSize, nil)
		}
		for _, cl := range x.unitC.Requires {
			x.applyModePredicates(st, fr, cl.Expr)
			st.assume(x.evalAssume(st, fr, cl, nil))
		}
		fr.entry = st.fork()
	}
	x.smoke(st, fr, "entry")
	if len(fn.Blocks) == 0 {
		return
	}
	x.runBlock(st, fr, fn.Blocks[0], 0)
}

// applyModePredicates: memwriter(w) in a requires clause switches the writer
// ghost of w to "never fails".
func (x *Exec) applyModePredicates(st *State, fr *Frame, e ast.Expr) {
	ast.Inspect(e, func(n ast.Node) bool {
		c, ok := n.(*ast.CallExpr)
		if !ok {
			return true
		}
		id, ok := c.Fun.(*ast.Ident)
		if !ok || len(c.Args) != 1 {
			return true
		}
		if id.Name == "memwriter" || id.Name == "memreader" {
			env := x.newEnv(st, fr, nil)
			v := env.eval(c.Args[0])
			if iv, ok := v.V.(IfaceV); ok && iv.Sym != "" {
				st.ghost[id.Name+":"+iv.Sym] = TV{SBool, "true"}
			}
		}
		return true
	})
}

func (x *Exec) unitReturn(st *State, fr *Frame, res []Val, in *ssa.Return) {
	x.returned++
	if x.returned <= 60 {
		x.smoke(st, fr, "return")
	}
	c := x.unitC
	if c == nil {
		return
	}
	binds := x.bindResults(fr.fn.Signature, res)
	for _, cl := range c.Ensures {
		if cl.Kind == "lemma" {
			// a cut: proved here under everything known so far, then assumed for what follows
			if g, ok := x.evalLemma(st, fr, cl, binds); ok {
				x.oblige(st, fr, "lemma."+cl.Label, "lemma", cl.Label, g, in, nil)
				st.assume(g)
			}
			continue
		}
		if cl.Kind == "apply" {
			x.applyLemma(st, fr, cl, binds, in)
			continue
		}
		g := x.evalClause(st, fr, cl, binds)
		x.oblige(st, fr, "post."+cl.Label, "post", cl.Label, g, in, nil)
	}
	if c.Fresh {
		// `fresh` is assumed by callers (the result is an object of its own): proved here
		for i, r := range res {
			if iv, isI := r.(IfaceV); isI && iv.Sym == "" && iv.Payload != nil {
				r = iv.Payload // an object handed back inside an interface
			}
			if pv, ok := r.(PtrV); ok && pv.Ref != "" && !pv.Nil {
				x.oblige(st, fr, fmt.Sprintf("post.*.fresh.r%d", i), "post", "*.fresh", tOr(tEq(pv.Ref, "0"), tCmp("<=", fr.entry.top, pv.Ref)), in, nil)
			}
		}
	}
	x.frameCheck(st, fr, c, in)
}

// frameCheck: everything outside the modifies clauses is unchanged.
func (x *Exec) frameCheck(st *State, fr *Frame, c *Contract, in *ssa.Return) {
	// allowed references per heap sort
	allowed := map[string][]string{}
	allHeap := map[string]bool{}
	for _, m := range c.Modifies {
		for _, ex := range m.Exprs {
			x.modTarget(fr.entry, fr, ex, func(kind, sort, ref string, cell *Cell) {
				switch kind {
				case "ref", "readerpos":
					allowed[sort] = append(allowed[sort], ref)
				case "heap":
					allHeap[sort] = true
				}
			})
		}
	}
	allowedCells := map[*Cell]bool{}
	allowedGhost := map[string]bool{}
	for _, m := range c.Modifies {
		for _, ex := range m.Exprs {
			x.modTarget(fr.entry, fr, ex, func(kind, sort, ref string, cell *Cell) {
				if kind == "cell" {
					allowedCells[cell] = true
				}
				if strings.HasPrefix(kind, "ghost:") {
					allowedGhost[strings.TrimPrefix(kind, "ghost:")] = true
				}
			})
		}
	}
	// writes into the spare capacity of a backing array held by an object (see builtin append)
	for k := range st.ghost {
		if !strings.HasPrefix(k, "aliaswrite:") {
			continue
		}
		parts := strings.SplitN(strings.TrimPrefix(k, "aliaswrite:"), ":", 2)
		if len(parts) != 2 {
			continue
		}
		sortName, ref := parts[0], parts[1]
		if sortName == "cell" {
			cell := x.aliasCells[ref]
			if cell == nil || allowedCells[cell] {
				continue
			}
			if _, atEntry := fr.entry.cells[cell]; atEntry {
				x.oblige(st, fr, "frame.sharedappend.cell", "frame", "frame", "false", in, nil)
			}
			continue
		}
		if allHeap[sortName] {
			continue
		}
		var alts []string
		for _, a := range allowed[sortName] {
			alts = append(alts, tEq(a, ref))
		}
		alts = append(alts, tCmp("<=", fr.entry.top, ref)) // an object allocated during the call
		x.oblige(st, fr, "frame.sharedappend."+sortName, "frame", "frame", tOr(alts...), in, nil)
	}
	checkCell := func(name string, v Val) {
		pv, ok := v.(PtrV)
		if !ok || pv.Cell == nil || allowedCells[pv.Cell] {
			return
		}
		old, ok1 := fr.entry.cells[pv.Cell].(TV)
		cur, ok2 := st.cells[pv.Cell].(TV)
		if ok1 && ok2 && old.E != cur.E {
			x.oblige(st, fr, "frame.cell."+name, "frame", "frame", tEq(old.E, cur.E), in, nil)
		}
	}
	for _, p := range fr.fn.Params {
		checkCell(p.Name(), fr.vals[p])
	}
	// package-level variables of the repository: unchanged unless the contract names them
	var gnames []string
	gcell := map[string]*Cell{}
	for g, gc := range globalCells {
		gnames = append(gnames, g.String())
		gcell[g.String()] = gc
	}
	sort.Strings(gnames)
	for _, gn := range gnames {
		gc := gcell[gn]
		if allowedCells[gc] {
			continue
		}
		init, ok1 := st.ghost[fmt.Sprintf("ginit:%d", gc.id)].(TV)
		cur, ok2 := st.cells[gc].(TV)
		if ok1 && ok2 && init.E != cur.E {
			x.oblige(st, fr, "frame.global."+sanitizeIdent(gc.name), "frame", "frame", tEq(init.E, cur.E), in, nil)
		}
	}
	for _, p := range fr.fn.FreeVars {
		checkCell(p.Name(), fr.vals[p])
	}
	for _, k := range []string{"trace", "store", "exists"} {
		cur, ok := st.ghost[k]
		if !ok {
			continue
		}
		key := k
		if k == "exists" {
			key = "store"
		}
		if allowedGhost[key] {
			continue
		}
		init := map[string]string{"trace": x.initialTrace, "store": x.initialStore, "exists": x.initialStore + "_ex"}[k]
		if old, ok := fr.entry.ghost[k]; ok {
			init = old.(TV).E
		}
		if init != cur.(TV).E {
			x.oblige(st, fr, "frame.ghost."+k, "frame", "frame", tEq(init, cur.(TV).E), in, nil)
		}
	}
	for k, cur := range st.ghost {
		if !(strings.HasPrefix(k, "rem:") || strings.HasPrefix(k, "out:")) || allowedGhost[k] {
			continue
		}
		old, ok := fr.entry.ghost[k]
		if !ok {
			continue
		}
		if old.(TV).E != cur.(TV).E {
			x.oblige(st, fr, "frame.ghost."+sanitizeIdent(k), "frame", "frame", tEq(old.(TV).E, cur.(TV).E), in, nil)
		}
	}
	for h, cur := range st.heaps {
		sort := strings.TrimPrefix(h, "H_")
		if allHeap[sort] {
			continue
		}
		old, ok := fr.entry.heaps[h]
		if !ok {
			// heap first touched after entry: its initial constant is the entry value
			old = x.initialHeaps[h]
			if old == "" {
				continue
			}
		}
		if old == cur {
			continue
		}
		x.freshN++
		r := fmt.Sprintf("q_r_%d", x.freshN)
		conds := []string{tCmp("<", "0", r), tCmp("<", r, fr.entry.top)}
		for _, a := range allowed[sort] {
			conds = append(conds, tNot(tEq(r, a)))
		}
		goal := fmt.Sprintf("(forall ((%s Int)) %s)", r, tImp(tAnd(conds...), tEq(app("select", cur, r), app("select", old, r))))
		x.oblige(st, fr, "frame."+sort, "frame", "frame", goal, in, nil)
	}
}

// modTarget resolves a modifies expression.
func (x *Exec) modTarget(st *State, fr *Frame, ex ast.Expr, f func(kind, sort, ref string, cell *Cell)) {
	switch n := ex.(type) {
	case *ast.StarExpr:
		env := x.newEnv(st, fr, nil)
		v := env.eval(n.X)
		if pv, ok := v.V.(PtrV); ok {
			if pv.Cell != nil {
				f("cell", "", "", pv.Cell)
			} else if pv.Ref != "" {
				f("ref", pv.RootSort, pv.Ref, nil)
			}
			return
		}
	case *ast.CallExpr:
		if id, ok := n.Fun.(*ast.Ident); ok {
			switch id.Name {
			case "rem", "out":
				env := x.newEnv(st, fr, nil)
				v := env.eval(n.Args[0])
				x.ghostTarget(st, v.V, id.Name, f)
				return
			case "trace":
				f("ghost:trace", "", "", nil)
				return
			case "files":
				f("ghost:store", "", "", nil)
				return
			case "clock": // the callee reads the wall clock: now() refers to its reading afterwards
				f("ghost:clock", "", "", nil)
				return
			case "lastsig": // the callee asks a crypto.Signer for a signature
				f("ghost:lastsig", "", "", nil)
				return
			case "heap":
				if tid, ok := n.Args[0].(*ast.Ident); ok {
					if sort := x.sortByTypeName(fr.fn, tid.Name); sort != "" {
						f("heap", sort, "", nil)
						return
					}
				}
				// heap(pkg.Type): a type of another package, e.g. heap(bytes.Buffer)
				if sel, ok := n.Args[0].(*ast.SelectorExpr); ok {
					if q, isId := sel.X.(*ast.Ident); isId {
						sort := "T_" + q.Name + "_" + sel.Sel.Name
						if x.w.DTByName(sort) != nil {
							f("heap", sort, "", nil)
							return
						}
					}
				}
			}
		}
	case *ast.Ident:
		// a captured variable (closure free var) or named cell
		env := x.newEnv(st, fr, nil)
		for _, fv := range fr.fn.FreeVars {
			if fv.Name() == n.Name {
				if pv, ok := fr.vals[fv].(PtrV); ok {
					if pv.Cell != nil {
						f("cell", "", "", pv.Cell)
					} else if pv.Ref != "" {
						f("ref", pv.RootSort, pv.Ref, nil)
					}
					return
				}
			}
		}
		_ = env
	}
	x.oos = append(x.oos, fmt.Sprintf("%s: unsupported modifies target", fnName(fr.fn)))
}

func (x *Exec) ghostTarget(st *State, v Val, kind string, f func(kind, sort, ref string, cell *Cell)) {
	switch u := v.(type) {
	case IfaceV:
		if u.Sym != "" {
			f("ghost:"+kind+":"+u.Sym, "", "", nil)
			return
		}
		if u.Payload != nil {
			x.ghostTarget(st, u.Payload, kind, f)
		}
	case PtrV:
		if u.Ref != "" && kind == "rem" && ghostFor(u.Elem) == "bytes.Reader" {
			// reading moves the position of a bytes.Reader, its content stays
			f("readerpos", u.RootSort, u.Ref, nil)
		} else if u.Ref != "" {
			f("ref", u.RootSort, u.Ref, nil)
		} else if u.Cell != nil {
			f("cell", "", "", u.Cell)
		}
	}
}

func (x *Exec) sortByTypeName(fn *ssa.Function, name string) string {
	pkg := fn.Pkg
	if pkg == nil && fn.Parent() != nil {
		pkg = fn.Parent().Pkg
	}
	if pkg == nil {
		return ""
	}
	if m, ok := pkg.Members[name].(*ssa.Type); ok {
		return x.w.SortOf(m.Type())
	}
	return ""
}

// callByContract: check preconditions, havoc the frame, assume postconditions.
func (x *Exec) callByContract(st *State, fr *Frame, callee *ssa.Function, c *Contract, bind, args []Val, instr ssa.Instruction, k cont) {
	cf := &Frame{fn: callee, vals: map[ssa.Value]Val{}, params: map[string]Val{}, cutLoops: map[int]*loopCut{}, contract: c}
	for i, p := range callee.Params {
		if i < len(args) {
			cf.vals[p] = args[i]
			cf.params[p.Name()] = args[i]
		}
	}
	for i, fv := range callee.FreeVars {
		if i < len(bind) {
			cf.vals[fv] = bind[i]
			cf.params[fv.Name()] = bind[i]
		}
	}
	// pointer and interface arguments must be non-nil (the callee assumes it)
	for i, p := range callee.Params {
		if i >= len(args) || c.Nullable[p.Name()] {
			continue
		}
		switch av := args[i].(type) {
		case PtrV:
			x.nilCheck(st, fr, av, instr)
		case IfaceV:
			if av.Sym != "" {
				x.safe(st, fr, "nil", tNot(tEq(av.Sym, "0")), instr)
			} else if av.Dyn == nil {
				x.safe(st, fr, "nil", "false", instr)
			}
		}
	}
	pre := st.fork()
	cf.entry = pre
	short := callee.Name()
	for i, cl := range c.Requires {
		g := x.evalClause(st, cf, cl, nil)
		lab := cl.Label
		if lab == "" {
			lab = fmt.Sprintf("r%d", i+1)
		}
		x.oblige(st, fr, x.ordinal(fr.fn, instr, "pre."+short)+"."+lab, "pre", cl.Label, g, instr, nil)
	}
	// havoc modifies
	for _, m := range c.Modifies {
		for _, ex := range m.Exprs {
			x.modTarget(pre, cf, ex, func(kind, sort, ref string, cell *Cell) {
				switch {
				case kind == "readerpos":
					d := x.w.DTByName(sort)
					o := st.heapSelect(sort, ref)
					np := st.fresh("pos", SInt)
					st.assume(tAnd(tCmp("<=", "0", np), tCmp("<=", np, sLen(SSeqI, d.Get(0, o)))))
					st.heapStore(sort, ref, d.Make([]string{d.Get(0, o), np}))
				case kind == "ref":
					nv := st.fresh("mod", sort)
					st.heapStore(sort, ref, nv)
				case kind == "heap":
					st.havocHeap(sort)
				case kind == "cell":
					if !st.frozen[cell] {
						_, x.keepLen = st.ghost[fmt.Sprintf("len:%d", cell.id)]
						st.cells[cell] = x.havocLike(st, cell.name, cell.typ, st.cells[cell])
						x.keepLen = false
					}
				case kind == "ghost:trace":
					x.traceGet(st)
					st.ghost["trace"] = TV{x.traceSort(), st.fresh("trace", x.traceSort())}
				case kind == "ghost:store":
					x.storeGet(st)
					st.ghost["store"] = TV{x.storeSort(), st.fresh("store", x.storeSort())}
					st.ghost["exists"] = TV{"(Array " + SSeqI + " Bool)", st.fresh("exists", "(Array "+SSeqI+" Bool)")}
				case kind == "ghost:clock":
					// the callee may read the clock any number of times: earlier readings stay
					old := x.clockGet(st)
					nc := st.fresh("clock", SSeqI)
					x.freshN++
					q := fmt.Sprintf("q_c_%d", x.freshN)
					st.assume(tCmp("<=", sLen(SSeqI, old), sLen(SSeqI, nc)))
					st.assume(fmt.Sprintf("(forall ((%s Int)) (! (=> (and (<= 0 %s) (< %s %s)) (= %s %s)) :pattern (%s)))", q, q, q, sLen(SSeqI, old), sIdx(SSeqI, nc, q), sIdx(SSeqI, old, q), sIdx(SSeqI, nc, q)))
					st.ghost["clock"] = TV{SSeqI, nc}
				case kind == "ghost:lastsig":
					st.ghost["lastsig"] = TV{SSeqI, x.freshBytes(st, "sig")}
				case strings.HasPrefix(kind, "ghost:"):
					key := strings.TrimPrefix(kind, "ghost:")
					n := x.freshBytes(st, "g")
					st.ghost[key] = TV{SSeqI, n}
				}
			})
		}
	}
	oldTop := st.top
	if !c.Pure {
		st.advanceTop()
	}
	// results
	sig := callee.Signature
	var res []Val
	for i := 0; i < sig.Results().Len(); i++ {
		t := sig.Results().At(i).Type()
		v := x.symVal(st, fmt.Sprintf("%s_r%d", short, i), t)
		if pv, ok := v.(PtrV); ok && pv.Ref != "" && c.Fresh {
			st.assume(tOr(tEq(pv.Ref, "0"), tCmp("<=", oldTop, pv.Ref)))
		}
		if iv, ok := v.(IfaceV); ok && iv.Sym != "" && !isErrorType(t) {
			// an object handed back through an interface carries its own (unknown) output
			// stream, so that the callee's clauses about out(result) can be stated and used
			if _, has := st.ghost["out:"+iv.Sym]; !has {
				st.ghost["out:"+iv.Sym] = TV{SSeqI, x.freshBytes(st, "rout")}
			}
		}
		res = append(res, v)
	}
	binds := x.bindResults(sig, res)
	// fault mode: dependencies may have failed inside the callee; its clauses
	// speak about failures during the call (delta flags), the caller accumulates
	var saved map[string]Val
	if x.faulty {
		saved = map[string]Val{}
		var ds []string
		for _, k := range failKinds {
			saved[k] = st.ghost["failed:"+k]
			d := st.fresh("failed_"+k, SBool)
			ds = append(ds, d)
			st.ghost["failed:"+k] = TV{SBool, d}
		}
		saved["any"] = st.ghost["failed:any"]
		da := st.fresh("failed_any", SBool)
		st.assume(tEq(da, tOr(ds...)))
		// a callee that cannot reach a caller-supplied dependency cannot see one fail
		if sum := x.fnEffects(callee, map[*ssa.Function]bool{}); !sum.deps && !c.Trusted {
			st.assume(tNot(da))
		}
		st.ghost["failed:any"] = TV{SBool, da}
	}
	for _, cl := range c.Ensures {
		if cl.Kind == "lemma" || cl.Kind == "apply" {
			continue // proof-internal: speaks about the callee's locals
		}
		st.assume(x.evalAssume(st, cf, cl, binds))
	}
	if x.faulty {
		for _, k := range append(append([]string{}, failKinds...), "any") {
			d := st.ghost["failed:"+k].(TV).E
			if o, ok := saved[k].(TV); ok {
				st.ghost["failed:"+k] = TV{SBool, tOr(o.E, d)}
			}
		}
	}
	var out Val
	switch len(res) {
	case 0:
	case 1:
		out = res[0]
	default:
		out = TupleV(res)
	}
	k(st, fr, out)
}

// invokeSymbolic: method call on an interface value of unknown dynamic type.
func (x *Exec) invokeSymbolic(st *State, fr *Frame, cc *ssa.CallCommon, iv IfaceV, args []Val, instr ssa.Instruction, k cont) {
	if iv.Sym != "" {
		x.safe(st, fr, "nil", tNot(tEq(iv.Sym, "0")), instr)
		st.assume(tNot(tEq(iv.Sym, "0")))
	}
	key := cc.Method.Name()
	if h, ok := ifaceMethods[key]; ok {
		outs := h(x, st, fr, cc, iv, args, instr)
		if outs != nil {
			x.extUsed["interface method "+key] = true
			x.continueOutcomes(fr, outs, k)
			return
		}
	}
	// calls on caller-supplied objects without a modelled contract are recorded
	// on the ghost trace (kind 9, path = method name) so that contracts can say
	// "was not called"
	x.traceAdd(st, 9, x.w.StrLit(cc.Method.Name()), "0", sEmpty(SSeqI))
	x.note("extunknown: interface method " + cc.Method.FullName())
	x.extUsed["UNKNOWN interface method "+cc.Method.FullName()] = true
	x.havocForUnknown(st, args)
	k(st, fr, x.symResult(st, cc))
}

// applyLemma: `//@ apply [label] pkg.verifLemmaX(ghost arguments)` at a return of a lemma function uses
// a pure lemma function (one without results and without effects) at spec terms that no Go value
// holds (a clock reading, the signature the signer returned): its preconditions are obligations
// here, its postconditions are then known. The lemma function itself is a unit of the same scope.
func (x *Exec) applyLemma(st *State, fr *Frame, cl *Clause, binds map[string]SV, in *ssa.Return) {
	call, ok := cl.Expr.(*ast.CallExpr)
	if !ok {
		x.oos = append(x.oos, fmt.Sprintf("%s:%d: apply [%s] needs a call", cl.File, cl.Line, cl.Label))
		return
	}
	guard := "true"
	if id, isId := call.Fun.(*ast.Ident); isId && id.Name == "imp__" && len(call.Args) == 2 {
		// guarded application: cond ==> lemma(args)
		ge := x.newEnv(st, fr, binds)
		gv := ge.eval(call.Args[0])
		inner, isCall := call.Args[1].(*ast.CallExpr)
		if ge.err != nil || !isCall {
			x.oos = append(x.oos, fmt.Sprintf("%s:%d: apply [%s]: cannot evaluate the guard: %v", cl.File, cl.Line, cl.Label, ge.err))
			return
		}
		guard = ge.boolOf(gv)
		call = inner
	}
	var pkg *ssa.Package
	var name string
	switch f := call.Fun.(type) {
	case *ast.Ident:
		pkg, name = fr.fn.Pkg, f.Name
	case *ast.SelectorExpr:
		if id, isId := f.X.(*ast.Ident); isId {
			for _, p := range x.prog.AllPackages() {
				if p.Pkg.Name() == id.Name && strings.HasPrefix(p.Pkg.Path(), modPath) {
					pkg = p
				}
			}
			name = f.Sel.Name
		}
	}
	var callee *ssa.Function
	if pkg != nil {
		callee = pkg.Func(name)
	}
	if callee == nil {
		x.oos = append(x.oos, fmt.Sprintf("%s:%d: apply [%s]: unknown lemma function", cl.File, cl.Line, cl.Label))
		return
	}
	full := callee.Pkg.Pkg.Path() + "." + callee.Name()
	c := x.contracts[full]
	if c == nil || !c.Pure || !isLemmaUnit(full) || callee.Signature.Results().Len() != 0 || len(call.Args) != len(callee.Params) {
		x.oos = append(x.oos, fmt.Sprintf("%s:%d: apply [%s]: %s is not a pure lemma function of that arity", cl.File, cl.Line, cl.Label, full))
		return
	}
	env := x.newEnv(st, fr, binds)
	cf := &Frame{fn: callee, vals: map[ssa.Value]Val{}, params: map[string]Val{}, cutLoops: map[int]*loopCut{}, contract: c}
	for i, a := range call.Args {
		v := env.eval(a)
		if env.err != nil || v.V == nil {
			x.oos = append(x.oos, fmt.Sprintf("%s:%d: apply [%s]: cannot evaluate argument %d: %v", cl.File, cl.Line, cl.Label, i+1, env.err))
			return
		}
		cf.vals[callee.Params[i]] = v.V
		cf.params[callee.Params[i].Name()] = v.V
	}
	cf.entry = st.fork()
	for i, rq := range c.Requires {
		g := x.evalClause(st, cf, rq, nil)
		x.oblige(st, fr, fmt.Sprintf("apply.%s.r%d", cl.Label, i+1), "lemma", cl.Label, tImp(guard, g), in, nil)
	}
	for _, en := range c.Ensures {
		if en.Kind != "ensures" {
			continue
		}
		st.assume(tImp(guard, x.evalAssume(st, cf, en, nil)))
	}
}
