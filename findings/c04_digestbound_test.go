package pkcs7

// Demonstration for the fixed finding C04.digestbound: before the fix, replacing the
// encapsulated content of a signed blob (same length, so the DER stays valid) still verified.
// Run: go test -overlay (see /verif/findings/README) or copy into /repo/pkcs7.

import (
	"bytes"
	"crypto/rand"
	"crypto/rsa"
	"crypto/x509"
	"crypto/x509/pkix"
	"encoding/asn1"
	"math/big"
	"testing"
	"time"
)

func TestFindingContentNotBoundToDigest(t *testing.T) {
	key, _ := rsa.GenerateKey(rand.Reader, 2048)
	tmpl := &x509.Certificate{SerialNumber: big.NewInt(7), Subject: pkix.Name{CommonName: "t"}, NotBefore: time.Now().Add(-time.Hour), NotAfter: time.Now().Add(time.Hour)}
	der, _ := x509.CreateCertificate(rand.Reader, tmpl, tmpl, &key.PublicKey, key)
	cert, _ := x509.ParseCertificate(der)
	content := []byte("content-AAAAAAAAAAAAAAAA")
	blob, err := SignPKCS7(key, cert, asn1.ObjectIdentifier{1, 3, 6, 1, 4, 1, 311, 2, 1, 4}, content)
	if err != nil {
		t.Fatal(err)
	}
	p, err := ParsePKCS7(blob)
	if err != nil {
		t.Fatal(err)
	}
	if ok, err := p.Verify(cert); !ok || err != nil {
		t.Fatalf("genuine blob must verify: %v %v", ok, err)
	}
	forged := bytes.Replace(blob, content, []byte("content-BBBBBBBBBBBBBBBB"), 1)
	p2, err := ParsePKCS7(forged)
	if err != nil {
		t.Fatal(err)
	}
	if ok, _ := p2.Verify(cert); ok {
		t.Fatalf("blob with replaced content verified")
	}
}
