// Witness for the finding "efi.GetBootEntry dereferences a nil buffer when the variable cannot be
// read" (property C15; repaired by the fix: commit recorded in /verif/known_findings.json).
//
// Usage (from a checkout of the library): copy into efi/ and run
//   go test -vet=off -count=1 -run TestWitnessGetBootEntryUnreadable ./efi/
// Before the repair the test fails with a recovered nil pointer dereference; after it the call
// returns an error.
package efi

import (
	"testing"

	"github.com/foxboron/go-uefi/efi/fs"
	"github.com/spf13/afero"
)

func TestWitnessGetBootEntryUnreadable(t *testing.T) {
	fs.SetFS(afero.NewMemMapFs()) // no Boot0001 variable: the open fails
	defer func() {
		if r := recover(); r != nil {
			t.Fatalf("GetBootEntry panicked on a variable that cannot be read: %v", r)
		}
	}()
	if _, err := GetBootEntry("Boot0001"); err == nil {
		t.Fatalf("no error for a variable that cannot be read")
	}
}
