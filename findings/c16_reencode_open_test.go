package pkcs7

// Demonstration of the OPEN finding recorded for C16 (known_findings.json,
// pkcs7.verifLemmaReencode#post.C16.reencode): re-encoding parsed signed attributes does not
// reproduce the bytes that were signed when the producer ordered the attributes differently
// from contentType, signingTime, messageDigest. (Verification is not affected: it uses the bytes
// kept at parse time.)  In-package test; copy into /repo/pkcs7 to run. It FAILS on the current
// tree, which is what the finding says.

import (
	"bytes"
	"testing"
	"time"

	"golang.org/x/crypto/cryptobyte"
	"golang.org/x/crypto/cryptobyte/asn1"
)

func TestFindingC16ReencodeOrder(t *testing.T) {
	var b cryptobyte.Builder
	attr := func(b *cryptobyte.Builder, oid []int, val func(*cryptobyte.Builder)) {
		b.AddASN1(asn1.SEQUENCE, func(b *cryptobyte.Builder) {
			b.AddASN1ObjectIdentifier(oid)
			b.AddASN1(asn1.SET, val)
		})
	}
	// messageDigest first, as a DER-sorting producer emits for some content types
	b.AddASN1(asn1.Tag(0).ContextSpecific().Constructed(), func(b *cryptobyte.Builder) {
		attr(b, OIDAttributeMessageDigest, func(b *cryptobyte.Builder) { b.AddASN1OctetString(bytes.Repeat([]byte{7}, 32)) })
		attr(b, OIDAttributeContentType, func(b *cryptobyte.Builder) { b.AddASN1ObjectIdentifier(OIDData) })
		attr(b, OIDAttributeSigningTime, func(b *cryptobyte.Builder) { b.AddASN1UTCTime(time.Unix(1700000000, 0).UTC()) })
	})
	blob := b.BytesOrPanic()
	s := cryptobyte.String(blob)
	a, err := parseAttributes(&s)
	if err != nil || a == nil {
		t.Fatalf("parse: %v", err)
	}
	signed := append([]byte{0x31}, blob[1:]...)
	if !bytes.Equal(a.raw, signed) {
		t.Fatalf("kept bytes differ from what was signed")
	}
	if again := a.Marshal(); !bytes.Equal(again, signed) {
		t.Fatalf("re-encoding differs from the signed bytes:\n signed % x\n again  % x", signed, again)
	}
}
