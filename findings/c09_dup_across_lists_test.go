package signature

// Demonstration for the fixed finding C09.dup: a database holding two lists of the same type and
// signature size (decoded from a variable, or built with AppendList) accepted an entry that a
// later list already held, because Append only consulted the first fitting list.

import (
	"bytes"
	"testing"

	"github.com/foxboron/go-uefi/efi/util"
)

func TestFindingDuplicateAcrossLists(t *testing.T) {
	owner := util.EFIGUID{Data1: 1}
	h1 := bytes.Repeat([]byte{1}, 32)
	h2 := bytes.Repeat([]byte{2}, 32)
	l1 := NewSignatureList(CERT_SHA256_GUID)
	l2 := NewSignatureList(CERT_SHA256_GUID)
	if err := l1.AppendBytes(owner, h1); err != nil {
		t.Fatal(err)
	}
	if err := l2.AppendBytes(owner, h2); err != nil {
		t.Fatal(err)
	}
	var stream bytes.Buffer
	WriteSignatureList(&stream, *l1)
	WriteSignatureList(&stream, *l2)
	db, err := ReadSignatureDatabase(&stream)
	if err != nil || len(db) != 2 {
		t.Fatalf("decode: %v %d", err, len(db))
	}
	before := db.Bytes()
	if !db.BytesExists(CERT_SHA256_GUID, owner, h2) {
		t.Fatal("h2 must be a member")
	}
	if err := db.Append(CERT_SHA256_GUID, owner, h2); err == nil {
		t.Fatalf("duplicate append succeeded; database now has %d bytes instead of %d", len(db.Bytes()), len(before))
	}
	if !bytes.Equal(before, db.Bytes()) {
		t.Fatal("failed append changed the database")
	}
}
