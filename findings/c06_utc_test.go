package util

// Demonstration for the fixed finding C06.utc: NewEFITime took the civil fields of the local
// time, so in a process whose zone is not UTC the timestamp of a signed update was off by the
// zone offset (UEFI wants UTC with TimeZone == 0 for authenticated variables).

import (
	"testing"
	"time"
)

func TestFindingTimestampNotUTC(t *testing.T) {
	saved := time.Local
	defer func() { time.Local = saved }()
	time.Local = time.FixedZone("plus9", 9*3600)
	before := time.Now().UTC()
	e := NewEFITime()
	after := time.Now().UTC()
	if int(e.Hour) != before.Hour() && int(e.Hour) != after.Hour() {
		t.Fatalf("timestamp hour %d, UTC hour %d", e.Hour, before.Hour())
	}
}
