package pkcs7

// Demonstration for the fixed finding C04.attrs_as_appear: before the fix Verify checked the
// signature over a re-encoding of the parsed attributes, so a blob whose signed attributes were
// reordered (bytes the signature was never made over) still verified.

import (
	"bytes"
	"crypto/rand"
	"crypto/rsa"
	"crypto/x509"
	"crypto/x509/pkix"
	"encoding/asn1"
	"math/big"
	"testing"
	"time"

	"golang.org/x/crypto/cryptobyte"
	cbasn1 "golang.org/x/crypto/cryptobyte/asn1"
)

func TestFindingReorderedAttributesVerify(t *testing.T) {
	key, _ := rsa.GenerateKey(rand.Reader, 2048)
	tmpl := &x509.Certificate{SerialNumber: big.NewInt(9), Subject: pkix.Name{CommonName: "t"}, NotBefore: time.Now().Add(-time.Hour), NotAfter: time.Now().Add(time.Hour)}
	der, _ := x509.CreateCertificate(rand.Reader, tmpl, tmpl, &key.PublicKey, key)
	cert, _ := x509.ParseCertificate(der)
	blob, err := SignPKCS7(key, cert, asn1.ObjectIdentifier{1, 2, 840, 113549, 1, 7, 1}, []byte("payload"))
	if err != nil {
		t.Fatal(err)
	}
	p, err := ParsePKCS7(blob)
	if err != nil {
		t.Fatal(err)
	}
	if ok, err := p.Verify(cert); !ok || err != nil {
		t.Fatalf("genuine blob must verify: %v %v", ok, err)
	}
	// the attribute elements as the signer encoded them
	set := cryptobyte.String(p.SignerInfo[0].AuthenticatedAttributes.Marshal())
	var inner cryptobyte.String
	if !set.ReadASN1(&inner, cbasn1.SET) {
		t.Fatal("set")
	}
	orig := append([]byte{}, inner...)
	var elems [][]byte
	for !inner.Empty() {
		var e cryptobyte.String
		if !inner.ReadASN1Element(&e, cbasn1.SEQUENCE) {
			t.Fatal("elem")
		}
		elems = append(elems, e)
	}
	if len(elems) < 2 || !bytes.Contains(blob, orig) {
		t.Fatal("unexpected shape")
	}
	var rotated []byte
	for _, e := range append(elems[1:], elems[0]) {
		rotated = append(rotated, e...)
	}
	forged := bytes.Replace(blob, orig, rotated, 1)
	p2, err := ParsePKCS7(forged)
	if err != nil {
		t.Fatal(err)
	}
	if ok, _ := p2.Verify(cert); ok {
		t.Fatalf("blob with reordered signed attributes verified")
	}
}
