#!/bin/bash
# Runs the repository test-suite with the verif guard OFF and compares with BASELINE.json's stable_pass list.
export GOFLAGS=-mod=mod GOPROXY=off GOSUMDB=off GOTOOLCHAIN=local
cd /repo && go test -json -vet=off -count=1 ./... 2>/dev/null > /tmp/vfy_baseline.json
python3 - <<'PY'
import json
passed=set()
for l in open('/tmp/vfy_baseline.json'):
    try: e=json.loads(l)
    except: continue
    if e.get('Action')=='pass' and e.get('Test'):
        passed.add(e['Package']+'::'+e['Test'])
base=json.load(open('/root/.vp/BASELINE.json'))['stable_pass']
missing=[t for t in base if t not in passed]
print(f"{len(base)-len(missing)}/{len(base)} baseline tests pass")
for m in missing: print("MISSING", m)
PY
rm -f /tmp/vfy_baseline.json
