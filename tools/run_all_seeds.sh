#!/bin/bash
# usage: run_all_seeds.sh   applies every seeded change in turn and reports whether the property's check catches it
cd /verif
for d in seeded/*/; do
  s=$(basename $d); id=${s%%-*}
  extra=$(python3 -c "import json;print(' '.join(json.load(open('$d/meta.json')).get('also_check',[])))" 2>/dev/null)
  out=$(tools/try_seed.sh /verif/$d/patch.diff $id $extra 2>&1)
  if echo "$out" | grep -q "^VIOLATION\|contract for unknown function\|BROKEN"; then r=CAUGHT; else r=MISSED; fi
  echo "$s $r $(echo "$out" | grep "VIOLATION" | head -2 | sed 's/VIOLATION property=//' | tr '\n' ' ' | cut -c1-200)"
done
