#!/usr/bin/env python3
"""usage: expect_detect.py [--verify] [seed names...]  (--verify: compare with the recorded expect_detect, change nothing)
  — for every seeded change: apply it to a scratch copy of /repo, run the quick
check of its own property and of the properties in also_check there, and record in meta.json (expect_detect) which of
them report it. /repo itself is not touched. The thorough tier's must-fail corpus uses expect_detect."""
import json,os,subprocess,sys,tempfile,shutil,glob
from concurrent.futures import ThreadPoolExecutor
def one(d):
    name=os.path.basename(d.rstrip('/'))
    m=json.load(open(f'{d}/meta.json'))
    ids=[m['property']]+[x for x in m.get('also_check',[]) if x!=m['property']]
    sc=tempfile.mkdtemp(prefix='vfy_ed_')
    tree=f'{sc}/tree'
    subprocess.run(['rsync','-a','--exclude','.git','/repo/',tree+'/'],check=True)
    if subprocess.run(['git','apply',f'{d}/patch.diff'],cwd=tree).returncode!=0:
        shutil.rmtree(sc); return name,None
    det=[]
    for i in ids:
        r=subprocess.run(['/verif/bin/vfy','check',i,'--repo',tree,'--out',f'{sc}/out_{i}','--tier','quick','--nocorpus'],capture_output=True,text=True,env=dict(os.environ,VERIF_TIER='quick'))
        if r.returncode!=0 and (f'VIOLATION property={i}' in r.stdout or 'BROKEN' in r.stdout): det.append(i)
    shutil.rmtree(sc)
    if VERIFY:
        lost=[i for i in m.get('expect_detect',[]) if i not in det]
        return name,(['LOST:'+','.join(lost)] if lost else ['same'])+det
    m['expect_detect']=det
    json.dump(m,open(f'{d}/meta.json','w'),indent=1)
    return name,det
VERIFY='--verify' in sys.argv
args=[a for a in sys.argv[1:] if a!='--verify']
dirs=[f'/verif/seeded/{n}' for n in args] or sorted(glob.glob('/verif/seeded/*'))
with ThreadPoolExecutor(3) as ex:
    for name,det in ex.map(one,dirs):
        print(name,'does-not-apply' if det is None else (' '.join(det) or 'NONE'),flush=True)
