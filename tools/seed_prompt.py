import json,sys
pid,wt,variant=sys.argv[1],sys.argv[2],sys.argv[3]
for l in open('/verif/properties.jsonl'):
    p=json.loads(l)
    if p['id']==pid: break
txt=f"""You are helping test a verification effort by producing a realistic, subtle BUG in a Go library. Work ONLY inside the scratch git worktree {wt} (a checkout of the library github.com/foxboron/go-uefi). Do not read or write anything under /verif or /repo. Every shell call needs: export GOFLAGS=-mod=mod GOPROXY=off GOSUMDB=off GOTOOLCHAIN=local (there is no network). Files named zz_verif_contracts.go and zz_verif_lemmas.go are build-tagged annotation files that are not part of the library: ignore them and do not edit them.

The property the library is supposed to satisfy:

TITLE: {p['title']}
STATEMENT: {p['statement']}
QUANTIFIER: {p['quantifier']['text']}
WHY TESTS CANNOT SETTLE IT: {p['why_tests_cant']}
CODE ANCHORS: {json.dumps(p['anchors'].get('mechanism'))}

Your task: write ONE change to the library's non-test source (a small, plausible slip or 'refactoring' a developer could make) that BREAKS this property, while (1) the library still compiles (go build ./...), and (2) the existing test-suite still passes: go test -vet=off -count=1 ./efi/... ./efivarfs/... ./authenticode/... ./pkcs7/... . The change must need something specific to manifest — {variant} — not something ordinary use would expose at once. Do not touch test files, do not add build tags, do not change exported function signatures.

Also write a demonstration: a Go test file (package-internal or external test in ONE package directory of the library) named demo_test.go with a single test function that FAILS with your change applied and PASSES on the unchanged tree. It must run offline in under 60 s and use only the standard library and the module's existing dependencies.

Deliverables, all inside {wt}/out/ (create the directory; add an empty go.mod-less layout is fine, but make sure `go build ./...` at the worktree root is not disturbed — put a file out/go.mod containing 'module out' so the directory is skipped):
 - out/patch.diff : output of `git diff` for your source change (apply-able with `git apply` at the worktree root; must not include the out/ directory or test files)
 - out/demo_test.go : the demonstration test
 - out/notes.md : which package directory the demo goes into (first line: `pkgdir: <relative dir>`), what the change is, why it breaks the property, what specific input/sequence is needed to see it, and the exact commands you ran with their results (build, suite, demo with and without the change).
Before finishing: verify all of it yourself (apply, build, run suite, run demo failing; revert, run demo passing), then leave the worktree with your source change REVERTED (git checkout -- . ; only out/ remains). Reply with a 5-line summary."""
print(txt)
