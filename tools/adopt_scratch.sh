#!/bin/bash
# usage: adopt_scratch.sh <worktree> <seed name> <prop id> [also ids...]
# like adopt_seed.sh, but /repo's working tree is never touched: the checks run on scratch copies (expect_detect.py)
wt=$1; name=$2; id=$3; shift 3
cd /verif
pkg=$(head -1 $wt/out/notes.md | sed 's/^pkgdir: *//' | tr -d '` ')
mkdir -p seeded/$name
cp $wt/out/patch.diff seeded/$name/patch.diff; cp $wt/out/demo_test.go seeded/$name/demo_test.go; cp $wt/out/notes.md seeded/$name/notes.md
conf=$(tools/confirm_seed.sh /verif/seeded/$name/patch.diff /verif/seeded/$name/demo_test.go $pkg 2>&1)
python3 - "$name" "$id" "$pkg" "$conf" "$@" <<'PY'
import json,sys
name,id,pkg,conf=sys.argv[1:5]; also=sys.argv[5:]
needs=open(f'/verif/seeded/{name}/notes.md').read()[:1800]
meta={"property":id,"demo_package_dir":pkg,"needs":needs,"confirmed":conf.replace('\n',' | '),"also_check":also,
 "checks_run":"tools/expect_detect.py (patch applied to a scratch copy of /repo; vfy check --repo <scratch>)","detected_by":"see expect_detect"}
json.dump(meta,open(f'/verif/seeded/{name}/meta.json','w'),indent=1)
PY
echo "$name: $(echo "$conf" | tr '\n' ' ' | cut -c1-200)"
python3 tools/expect_detect.py $name | tail -1
