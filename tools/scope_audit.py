#!/usr/bin/env python3
"""Every function that carries a clause labelled with a property id must be a unit of that property's scope
(otherwise the clause is assumed at call sites but never proved under that property). Lists what is missing."""
import re,glob,os,sys
root='/repo'
labels={}  # func -> set(props)
for f in glob.glob(root+'/**/zz_verif_contracts.go',recursive=True):
    pkg=os.path.dirname(f)[len(root)+1:]
    cur=None
    for l in open(f):
        m=re.match(r'\s*// ?@ func (.+)$',l)
        if m: cur=(pkg+'.'+m.group(1).strip()); continue
        m=re.search(r'// ?@ (?:ensures|lemma|loop \d+ invariant) \[([^\]]+)\]',l)
        if m and cur:
            head=m.group(1).split('.')[0]
            for p in head.split('+'):
                if p!='*': labels.setdefault(cur,set()).add(p)
bad=0
for sc in sorted(glob.glob('/verif/props/*.scope')):
    pid=os.path.basename(sc)[:-6]
    units=set()
    for l in open(sc):
        l=l.strip()
        if l.startswith('unit '): units.add(l.split()[1])
    for fn,ps in sorted(labels.items()):
        if pid in ps and fn not in units and not ('$' in fn and fn.split('$')[0] in units):
            print(f'{pid}: missing unit {fn}'); bad+=1
print('missing:',bad)
sys.exit(1 if bad else 0)
