#!/usr/bin/env python3
"""usage: tryg.py <query.smt2> '<smt goal>' [timeout_ms]
Replaces the goal of a dumped query (assert (not (=> A G))) by (assert A) (assert (not <goal>)) and runs both z3 versions.
In <goal>, @L and @R stand for the two sides of the original equality G = (= L R)."""
import sys,subprocess,re
def parse(s):
    toks=re.findall(r'[()]|[^\s()]+',s); pos=0
    def rd():
        nonlocal pos
        t=toks[pos]; pos+=1
        if t=='(':
            l=[]
            while toks[pos]!=')': l.append(rd())
            pos+=1; return l
        return t
    return rd()
def show(e): return e if isinstance(e,str) else '('+' '.join(show(x) for x in e)+')'
f=sys.argv[1]; goal=sys.argv[2]; to=sys.argv[3] if len(sys.argv)>3 else '10000'
lines=open(f).read().rstrip('\n').split('\n')
idx=max(i for i,l in enumerate(lines) if l.startswith('(assert (not '))
e=parse(lines[idx])   # ['assert',['not',X]]
X=e[1][1]
if isinstance(X,list) and X[0]=='=>': A,G=X[1],X[2]
else: A,G='true',X
L=R=''
if isinstance(G,list) and G[0]=='=': L,R=show(G[1]),show(G[2])
goal=goal.replace('@L',L).replace('@R',R)
body=lines[:idx]+['(assert %s)'%show(A),'(assert (not %s))'%goal]+lines[idx+1:]
for z in ['z3-new','z3']:
    r=subprocess.run([z,'-in','-t:'+to],input='\n'.join(body),capture_output=True,text=True).stdout.split('\n')[0]
    print(z,r)
