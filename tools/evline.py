import json,sys
id,rc=sys.argv[1],sys.argv[2]
try:
    e=json.load(open('/verif/evidence/%s.json'%id)); c=e['coverage']
    sq=c.get('slowest_path_query') or {}
    print("%s rc=%s obl=%s dis=%s known=%s wall=%.1fs retried=%s slowq=%.2fs %s"%(id,rc,c['obligations'],c['discharged'],c.get('known_finding_obligations'),e['wall_s'],c.get('queries_retried_after_timeout'),sq.get('seconds',0),sq.get('obligation','').split('/')[-1]))
except Exception as ex:
    print(id,'rc=',rc,'no evidence',ex)
