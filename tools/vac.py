#!/usr/bin/env python3
"""usage: vac.py <query.smt2>...  — are the hypotheses (without the negated goal) already unsat?"""
import sys,subprocess
for f in sys.argv[1:]:
    lines=open(f).read().rstrip('\n').split('\n')
    # last "(assert (not" before (check-sat)
    idx=max(i for i,l in enumerate(lines) if l.startswith('(assert (not '))
    hyp='\n'.join(lines[:idx]+lines[idx+1:])
    hasfalse=any(l.strip()=='(assert false)' for l in lines)
    r1=subprocess.run(['z3-new','-in','-t:8000'],input=hyp,capture_output=True,text=True).stdout.split('\n')[0]
    r2=subprocess.run(['z3-new','-in','-t:8000'],input='\n'.join(lines),capture_output=True,text=True).stdout.split('\n')[0]
    print(f.split('/')[-1][:100], 'hyp:',r1,'full:',r2,'(dead path)' if hasfalse else '')
