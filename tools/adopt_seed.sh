#!/bin/bash
# usage: adopt_seed.sh <worktree> <seed name e.g. C06-A> <prop id> [also ids...]
# confirms a sub-agent's deliverable (out/patch.diff, out/demo_test.go, out/notes.md), stores it under seeded/, runs the checks against it
wt=$1; name=$2; id=$3; shift 3
cd /verif
pkg=$(head -1 $wt/out/notes.md | sed 's/^pkgdir: *//' | tr -d '` ')
mkdir -p seeded/$name
cp $wt/out/patch.diff seeded/$name/patch.diff; cp $wt/out/demo_test.go seeded/$name/demo_test.go; cp $wt/out/notes.md seeded/$name/notes.md
echo "== confirm ($pkg)"; conf=$(tools/confirm_seed.sh /verif/seeded/$name/patch.diff /verif/seeded/$name/demo_test.go $pkg 2>&1); echo "$conf"
echo "== checks"; res=$(tools/try_seed.sh /verif/seeded/$name/patch.diff $id "$@" 2>&1); echo "$res"
python3 - "$name" "$id" "$pkg" "$conf" "$res" <<'PY'
import json,sys
name,id,pkg,conf,res=sys.argv[1:6]
needs=open(f'/verif/seeded/{name}/notes.md').read()[:1800]
caught=[l for l in res.splitlines() if l.startswith('VIOLATION')]
meta={"property":id,"demo_package_dir":pkg,"needs":needs,"confirmed":conf.replace('\n',' | '),
 "checks_run":"tools/try_seed.sh (git -C /repo apply; vfy check; git checkout -- .)",
 "detected_by":("CAUGHT: "+" ; ".join(c[:200] for c in caught)) if caught else "MISSED"}
json.dump(meta,open(f'/verif/seeded/{name}/meta.json','w'),indent=1)
print("==", name, "CAUGHT" if caught else "MISSED")
PY
