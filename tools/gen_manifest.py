#!/usr/bin/env python3
"""Regenerates /verif/MANIFEST.json from tools/claims.json (one entry per claimed property)."""
import json, subprocess, os
root = os.path.dirname(os.path.dirname(os.path.abspath(__file__)))
props = [json.loads(l) for l in open(os.path.join(root, 'properties.jsonl'))]
claims = json.load(open(os.path.join(root, 'tools', 'claims.json')))
hooks = subprocess.run(['git', '-C', '/repo', 'log', '--format=%H %s'], capture_output=True, text=True).stdout.splitlines()
hook_commits = [l.split()[0] for l in hooks if l.split(' ', 1)[1].startswith('verif:')]
checks = []
na = []
for p in props:
    pid = p['id']
    c = claims.get(pid)
    if not c or c.get('not_applicable'):
        na.append({"property_id": pid, "reason": (c or {}).get('not_applicable', 'not claimed yet: contracts for this property have not been written (see DESIGN.md section 5 build order)')})
        continue
    checks.append({
        "property_id": pid,
        "quick_cmd": f"/verif/bin/vfy check {pid} --tier quick",
        "thorough_cmd": f"/verif/bin/vfy check {pid} --tier thorough",
        "evidence_file": f"/verif/evidence/{pid}.json",
        "replay_cmd_template": "/verif/bin/vfy replay {path}",
        "engine": "vfy",
        "level_claimed": {"category": "proof", "text": c['text'], "design_ref": c.get('design_ref', 'DESIGN.md section 3')},
        "level_note": c['note'],
        "technique": c.get('technique', 'contract-based deductive verification: VC generation over go/ssa of the real code (no extraction: the SSA of /repo is what is executed symbolically), contracts in build-tagged comment files, compositions and inductions as lemma functions (real Go code under the build tag), obligations discharged by z3 5.1 / z3 4.8.12 / cvc5; the thorough tier repeats the proof with a 60 s budget and cvc5 and additionally applies every recorded property-breaking change (seeded/*/patch.diff) to a scratch copy of the tree under test and requires the quick check to detect it'),
    })
m = {
    "version": 1,
    "setup_cmd": "cd /verif/vfy && GOFLAGS=-mod=vendor GOPROXY=off GOSUMDB=off GOTOOLCHAIN=local go build -o /verif/bin/vfy .",
    "hooks": {
        "guard": "verif",
        "enable": "go/packages load with -tags=verif; guarded files: comment-only zz_verif_contracts.go (contracts) and zz_verif_lemmas.go (lemma functions that call library functions so that the verifier checks that their contracts compose; never called by the library, not compiled without the tag)",
        "baseline_off_cmd": "cd /repo && go test -vet=off -count=1 ./...",
        "source_commits": hook_commits,
        "add_only": True,
    },
    "engines": [{"name": "vfy", "path": "/verif/vfy", "serves_properties": [c['property_id'] for c in checks],
                 "kind_free_text": "self-written deductive verifier for Go: symbolic execution of go/ssa per function, loops cut at invariants, callees by contract, obligations as SMT-LIB discharged by z3 5.1 / z3 4.8.12 / cvc5"}],
    "checks": checks,
    "not_applicable": na,
    "notes": "Contract-based deductive verification of the real code; see DESIGN.md. Known findings: /verif/known_findings.json.",
}
json.dump(m, open(os.path.join(root, 'MANIFEST.json'), 'w'), indent=1)
print(f"{len(checks)} checks, {len(na)} not applicable")
