#!/bin/bash
# usage: run_all.sh [ids...]   runs the quick check of every claimed property and prints one line each
cd /verif
ids="$@"
[ -z "$ids" ] && ids=$(python3 -c "import json;print(' '.join(c['property_id'] for c in json.load(open('MANIFEST.json'))['checks']))")
for id in $ids; do
  out=$(./bin/vfy check $id --tier quick 2>&1); rc=$?
  python3 tools/evline.py "$id" "$rc"
  echo "$out" | grep "VIOLATION\|BROKEN\|VACUOUS" | cut -c1-250
done
