#!/bin/bash
# usage: try_seed.sh <patch.diff> <prop id>...   applies the patch to /repo, runs the checks, reverts.
patch=$1; shift
cd /repo && { [ -z "$(git status --porcelain)" ] || { echo "REFUSING: /repo has uncommitted changes"; exit 3; }; } && git apply "$patch" || { echo "patch does not apply"; exit 2; }
keep=$(mktemp -d /tmp/evkeep_XXXX); for id in "$@"; do cp /verif/evidence/$id.json $keep/ 2>/dev/null; done
for id in "$@"; do
  (cd /verif && timeout 900 ./bin/vfy check $id 2>&1 | grep "VIOLATION\|KNOWN\|property\|BROKEN" | sed 's/replay=.verif.replays.//' | cut -c1-260)
done
cd /repo && git checkout -- . && git status --short | head -3
# the runs above rewrote the evidence files from a modified tree: put back what was there before
cd /verif && for id in "$@"; do cp $keep/$id.json evidence/$id.json 2>/dev/null || git checkout -- evidence/$id.json 2>/dev/null; done; rm -rf $keep
