#!/bin/bash
# usage: confirm_seed.sh <patch.diff> <demo_test.go> <pkgdir relative to repo>  -- verifies a seeded change in a scratch worktree of /repo
set -u
export GOFLAGS=-mod=mod GOPROXY=off GOSUMDB=off GOTOOLCHAIN=local
patch=$1; demo=$2; pkg=$3
wt=$(mktemp -d /tmp/confirm_XXXX); rmdir $wt
git -C /repo worktree add -q --detach $wt HEAD || exit 2
cd $wt
cp "$demo" $pkg/zz_seeded_demo_test.go
echo -n "demo on unchanged tree: "; if go test -vet=off -count=1 -timeout 120s ./$pkg/ >/tmp/confirm_out.txt 2>&1; then echo PASS; else echo "FAIL(unexpected)"; tail -5 /tmp/confirm_out.txt; fi
git apply "$patch" || echo "PATCH DOES NOT APPLY"
echo -n "build with patch: "; go build ./... && echo ok
rm $pkg/zz_seeded_demo_test.go
echo -n "suite with patch: "; go test -vet=off -count=1 ./efi/... ./efivarfs/... ./authenticode/... ./pkcs7/... 2>&1 | grep -c "^ok" | tr '\n' ' '; go test -vet=off -count=1 ./efi/... ./efivarfs/... ./authenticode/... ./pkcs7/... 2>&1 | grep -c "FAIL" 
cp "$demo" $pkg/zz_seeded_demo_test.go
echo -n "demo with patch: "; if go test -vet=off -count=1 -timeout 120s ./$pkg/ >/tmp/confirm_out.txt 2>&1; then echo "PASS(unexpected)"; else echo FAIL; fi
cd /; git -C /repo worktree remove --force $wt; rm -f /tmp/confirm_out.txt
